#!/bin/bash
# tools/rebase-seed.sh <old patch.diff> <new patch.diff>
# Re-creates a seeded patch on /repo's current HEAD: the source hunks are applied, and when the
# patch also carried a regenerated peg.peg.go that file is regenerated with the patched peg.
set -u
OLD="$(realpath "$1")"; NEW="$(realpath -m "$2")"
WT="$(mktemp -d /tmp/rebwt-XXXXXX)"; rmdir "$WT"
git -C /repo worktree add -q --detach "$WT" HEAD || exit 2
trap 'git -C /repo worktree remove --force "$WT" 2>/dev/null; rm -rf "$WT"' EXIT
export GOFLAGS=-mod=mod GOPROXY=off
cd "$WT"
if ! git apply --exclude=peg.peg.go "$OLD"; then
  if ! git apply --3way --exclude=peg.peg.go "$OLD" 2>/dev/null; then echo "SOURCE HUNKS DO NOT APPLY: $OLD"; exit 1; fi
fi
if grep -q '^diff --git a/peg.peg.go' "$OLD"; then
  go build -o "$WT/.pegbin" . && "$WT/.pegbin" -inline -switch peg.peg && go build -o "$WT/.pegbin" . && "$WT/.pegbin" -inline -switch peg.peg
  rm -f "$WT/.pegbin"
fi
git diff HEAD > "$NEW.tmp"
suite=$(go test -count=1 . ./set 2>&1 | tail -2 | tr '\n' ' ')
mv "$NEW.tmp" "$NEW"
echo "rebased $(basename $(dirname $OLD)): $(grep -c '^diff --git' $NEW) files; suite: $suite"
