#!/bin/bash
# tools/evalseeds.sh [dirs...]: run the designated quick check against every seeded change,
# once without the committed regression witnesses (generated search alone) and, if that misses,
# once with them. One line per seed.
cd "$(dirname "$0")/.."
dirs=("$@"); [ ${#dirs[@]} -eq 0 ] && dirs=(seeded/C*)
for d in "${dirs[@]}"; do
  id=$(basename $d); prop=${id:0:3}
  patch=$d/patch.diff; [ -f $patch ] || patch=$d/patch.diff.gz
  r1=$(VERIF_NO_REPLAYS=1 tools/tryseed.sh $patch $prop 2>&1)
  line=$(echo "$r1" | grep "^$prop quick")
  suite=$(echo "$r1" | grep "^suite" | grep -c FAIL)
  rc=$(echo "$line" | sed 's/.*exit=\([0-9]*\).*/\1/')
  if [ "$rc" = 1 ]; then echo "$id suite_fail=$suite search: $line"; echo "$r1" | grep "^    " | head -3; continue; fi
  r2=$(tools/tryseed.sh $patch $prop 2>&1 | grep "^$prop quick")
  echo "$id suite_fail=$suite search: $line | with witnesses: $r2"
done
