#!/bin/bash
cd "$(dirname "$0")/.." 2>/dev/null
for id in C02 C08 C10 C13 C18 C01; do
  t0=$(date +%s); out=$(./check $id thorough 2>&1); rc=$?; t1=$(date +%s)
  echo "$id thorough exit=$rc $((t1-t0))s :: $(echo "$out" | grep -v '^\[rapid\]' | tail -1)"
  [ $rc -ne 0 ] && echo "$out" | grep -v '^\[rapid\]' | grep -A8 "^VIOLATION\|^INCONCLUSIVE" | head -24
done
true
