#!/bin/bash
cd "$(dirname "$0")/.." 2>/dev/null
for id in C01 C03 C04 C05 C06 C07 C09 C11 C12 C14 C15 C16 C17; do
  t0=$(date +%s); out=$(./check $id thorough 2>&1); rc=$?; t1=$(date +%s)
  echo "$id thorough exit=$rc $((t1-t0))s :: $(echo "$out" | grep -v '^\[rapid\]' | tail -1)"
  [ $rc -ne 0 ] && echo "$out" | grep -v '^\[rapid\]' | grep -A8 "^VIOLATION\|^INCONCLUSIVE" | head -24
done
true
