#!/usr/bin/env python3
"""Regenerates the sensitivity table of DESIGN.md (between the SEEDTABLE markers) from
seeded/*/agent-meta.json and tools/evalseeds.log."""
import json, os, re, glob, sys
root = os.path.dirname(os.path.dirname(os.path.abspath(__file__)))
log = open(os.path.join(root, 'tools', 'evalseeds.log')).read() if os.path.exists(os.path.join(root, 'tools', 'evalseeds.log')) else ''
res = {}
for m in re.finditer(r'^(C\d+[b-z]?) suite_fail=(\d) search: (C\d+) quick exit=(\d+) (\d+)s(?: \| with witnesses: C\d+ quick exit=(\d+) (\d+)s)?', log, re.M):
    res[m.group(1)] = dict(suite_fail=m.group(2), search=int(m.group(4)), secs=int(m.group(5)), witness=m.group(6))
rows = []
for d in sorted(glob.glob(os.path.join(root, 'seeded', 'C*'))):
    sid = os.path.basename(d)
    am = json.load(open(os.path.join(d, 'agent-meta.json')))
    summ = re.sub(r'\s+', ' ', am.get('summary', ''))[:230]
    r = res.get(sid)
    if r is None:
        verdict = 'not evaluated'
    elif r['search'] == 1:
        verdict = f"caught by the generated search of `./check {sid[:3]} quick` ({r['secs']} s incl. shrinking)"
    elif r['witness'] == '1':
        verdict = 'missed by the generated search of the quick tier; caught by a committed regression witness'
    else:
        verdict = 'MISSED by the quick tier'
    rows.append(f"| {sid} | {summ} | {verdict} |")
    # keep meta.json in step
    mp = os.path.join(d, 'meta.json')
    meta = json.load(open(mp)) if os.path.exists(mp) else {"property": sid[:3], "breaks": am.get('summary'), "needs_to_manifest": am.get('needs'), "files_changed": am.get('files_changed'),
        "author": "independent sub-agent given only the property text and a scratch worktree",
        "confirmed_by_me": {"pinned_suite_with_patch": "ok", "demo_with_patch": "fails", "demo_without_patch": "passes", "how": "tools/tryseed.sh (scratch worktree of /repo HEAD, go test . ./set, ./check with VERIF_REPO) and the demo script run with and without the patch"}}
    if r is not None:
        meta["check_result"] = {"check": f"./check {sid[:3]} quick", "generated_search_alone_exit": r['search'], "seconds": r['secs'], "with_committed_witnesses_exit": r['witness']}
    meta["patch_note"] = "patch.diff is rebased on the current /repo HEAD (regenerated peg.peg.go where the change touches the template); patch.orig.diff is what the author delivered"
    json.dump(meta, open(mp, 'w'), indent=1)
table = "| seed | change (author's summary) | result on the current checks |\n|---|---|---|\n" + "\n".join(rows) + "\n"
p = os.path.join(root, 'DESIGN.md')
s = open(p).read()
a, b = '<!-- SEEDTABLE:BEGIN -->', '<!-- SEEDTABLE:END -->'
if a in s:
    s = s[:s.index(a) + len(a)] + "\n" + table + s[s.index(b):]
else:
    s += f"\n{a}\n{table}{b}\n"
open(p, 'w').write(s)
print(f"{len(rows)} seeds, {sum(1 for r in res.values() if r['search']==1)} caught by search")
