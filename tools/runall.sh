#!/bin/bash
# tools/runall.sh <tier> [seed]: run every check once, print one line per check
TIER="${1:-quick}"; export VERIF_SEED="${2:-1}"
cd "$(dirname "$0")/.."
for i in 01 02 03 04 05 06 07 08 09 10 11 12 13 14 15 16 17 18; do
  t0=$(date +%s); out=$(./check C$i $TIER 2>&1); rc=$?; t1=$(date +%s)
  echo "C$i $TIER seed=$VERIF_SEED exit=$rc $((t1-t0))s :: $(echo "$out" | grep -v '^\[rapid\]' | tail -1)"
  [ $rc -ne 0 ] && echo "$out" | grep -v '^\[rapid\]' | grep -A8 "^VIOLATION\|^INCONCLUSIVE" | head -24
done
