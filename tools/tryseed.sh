#!/bin/bash
# tools/tryseed.sh <patch.diff> <ID> [tier] [more IDs...]
# Applies a patch to a scratch worktree of /repo's HEAD, confirms that the tree still builds
# and passes the pinned suite, runs the named checks against it (VERIF_REPO), and removes
# the worktree. Prints one line per check: "<ID> <tier> exit=<rc> <seconds>s".
set -u
PATCH="$(realpath "$1")"; shift
TIER=quick
WT="$(mktemp -d /tmp/seedwt-XXXXXX)"
rmdir "$WT"
git -C /repo worktree add -q --detach "$WT" HEAD || exit 2
cleanup() { git -C /repo worktree remove --force "$WT" 2>/dev/null; rm -rf "$WT"; }
trap cleanup EXIT
case "$PATCH" in
  *.gz) if ! zcat "$PATCH" | git -C "$WT" apply; then echo "PATCH DOES NOT APPLY"; exit 2; fi ;;
  *)    if ! git -C "$WT" apply "$PATCH"; then echo "PATCH DOES NOT APPLY"; exit 2; fi ;;
esac
export GOFLAGS=-mod=mod GOPROXY=off
if ! (cd "$WT" && go build ./ ./tree ./set && go vet ./tree ./set >/dev/null 2>&1); then echo "PATCHED TREE DOES NOT BUILD"; fi
SUITE=$(cd "$WT" && go test -count=1 . ./set 2>&1 | tail -3 | tr '\n' ' ')
echo "suite: $SUITE"
for ID in "$@"; do
  case "$ID" in quick|thorough) TIER="$ID"; continue;; esac
  t0=$(date +%s)
  out=$(VERIF_REPO="$WT" /verif/check "$ID" "$TIER" 2>&1); rc=$?
  t1=$(date +%s)
  echo "$ID $TIER exit=$rc $((t1-t0))s"
  echo "$out" | grep -A3 "^VIOLATION\|^INCONCLUSIVE" | head -8 | sed 's/^/    /'
done
