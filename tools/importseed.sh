#!/bin/bash
# tools/importseed.sh <out dir of a sub-agent> <id> [clean checkout]
# Confirms a delivered change myself (patch applies to a clean worktree, pinned suite green with
# it, demonstration fails with and passes without it), files it under seeded/<id>/ and runs the
# designated quick check against it (generated search alone, then with the committed witnesses).
set -u
OUT="$(realpath "$1")"; ID="$2"; CLEAN="${3:-/repo}"; PROP=${ID:0:3}
cd "$(dirname "$0")/.."
export GOFLAGS=-mod=mod GOPROXY=off
WT="$(mktemp -d /tmp/impwt-XXXXXX)"; rmdir "$WT"
git -C /repo worktree add -q --detach "$WT" HEAD || exit 2
trap 'git -C /repo worktree remove --force "$WT" 2>/dev/null; rm -rf "$WT"' EXIT
if ! git -C "$WT" apply "$OUT/patch.diff"; then echo "$ID PATCH DOES NOT APPLY"; exit 1; fi
suite=$(cd "$WT" && go test -vet=off -count=1 -timeout 300s . ./set 2>&1 | tail -2 | tr '\n' ' ')
case "$suite" in *FAIL*|*panic*) sok=FAIL;; *) sok=ok;; esac
timeout 600 bash "$OUT/demo/run.sh" "$WT" >/tmp/r9/logs/$ID.demo-with.log 2>&1; dw=$?
timeout 600 bash "$OUT/demo/run.sh" "$CLEAN" >/tmp/r9/logs/$ID.demo-without.log 2>&1; dwo=$?
echo "$ID suite=$sok demo_with_patch_exit=$dw demo_without_patch_exit=$dwo"
if [ "$sok" != ok ] || [ $dw -ne 1 ] || [ $dwo -ne 0 ]; then echo "$ID NOT CONFIRMED"; exit 1; fi
mkdir -p seeded/$ID; rm -rf seeded/$ID/demo
cp "$OUT/patch.diff" seeded/$ID/patch.diff; cp "$OUT/agent-meta.json" seeded/$ID/agent-meta.json; cp -r "$OUT/demo" seeded/$ID/demo
t0=$(date +%s); o1=$(VERIF_NO_REPLAYS=1 VERIF_REPO="$WT" ./check $PROP quick 2>&1); r1=$?; t1=$(date +%s)
echo "$ID search: $PROP quick exit=$r1 $((t1-t0))s"
echo "$o1" | grep -A3 "^VIOLATION\|^INCONCLUSIVE" | head -6 | cut -c1-600 | sed 's/^/    /'
python3 - "$ID" "$PROP" "$r1" "$((t1-t0))" <<'PY'
import json,sys
id,prop,r1,secs=sys.argv[1:5]
am=json.load(open(f'seeded/{id}/agent-meta.json'))
meta={"property":prop,"breaks":am.get("summary",""),"needs_to_manifest":am.get("needs",""),"files_changed":am.get("files_changed",[]),
 "author":"independent sub-agent given only the property text (and the list of earlier mechanisms to avoid) and a scratch worktree",
 "confirmed_by_me":{"pinned_suite_with_patch":"ok","demo_with_patch":"fails","demo_without_patch":"passes","how":"tools/importseed.sh (scratch worktree of /repo HEAD: git apply, go test . ./set, demo/run.sh on the patched and on a clean checkout, ./check with VERIF_REPO)"},
 "check_result":{"check":f"./check {prop} quick","generated_search_alone_exit":int(r1),"seconds":int(secs)}}
json.dump(meta,open(f'seeded/{id}/meta.json','w'),indent=1)
PY
