#!/usr/bin/env python3
"""Throw-away pre-design probe: random well-formed PEGs, reference interpreter,
batch build of option variants, differential + reference comparison."""
import json, os, random, subprocess, sys, shutil, hashlib

PEG = os.environ.get("PEGBIN", "/tmp/probe/peg")
ROOT = "/tmp/probe/lab/work"
ALPHA = ["a", "b", "c", "d"]
EXTRA = ["é", "世", "😀", "\n"]

# ---------------- grammar AST ----------------
# ('chr', c) ('rng', lo, hi) ('cls', [items], neg) ('dot',) ('seq', [..]) ('alt', [..], empty_last)
# ('opt', e) ('star', e) ('plus', e) ('and', e) ('not', e) ('cap', e) ('act', id) ('ref', i) ('ci', c)


class Gen:
    def __init__(self, rnd, nrules, switchy):
        self.r = rnd
        self.n = nrules
        self.nact = 0
        self.switchy = switchy

    def term(self):
        r = self.r
        k = r.random()
        if k < 0.55:
            c = r.choice(ALPHA) if r.random() < 0.9 else r.choice(EXTRA)
            return ("chr", c)
        if k < 0.7:
            lo = r.choice("abc")
            hi = chr(min(ord(lo) + r.randint(0, 2), ord("d")))
            return ("rng", lo, hi)
        if k < 0.8:
            items = r.sample(ALPHA, r.randint(1, 3))
            return ("cls", items, r.random() < 0.3)
        if k < 0.9:
            return ("ci", r.choice("ab"))
        return ("dot",)

    # must: expression must consume if it succeeds
    # guarded: True if something consumed before (any ref allowed)
    def expr(self, i, depth, must, guarded):
        r = self.r
        if depth <= 0:
            if not must and r.random() < 0.15:
                self.nact += 1
                return ("act", self.nact - 1)
            return self.term()
        k = r.random()
        if k < 0.22:
            return self.term()
        if k < 0.42:  # seq
            n = r.randint(2, 4)
            items = []
            g = guarded
            consumed = False
            # choose which element is the mandatory consumer if must
            mc = r.randrange(n) if must else -1
            for j in range(n):
                m = j == mc
                e = self.expr(i, depth - 1, m, g)
                items.append(e)
                if self.consumes(e):
                    g = True
            return ("seq", items)
        if k < 0.64:  # alt
            n = r.randint(2, 5) if not self.switchy else r.randint(3, 6)
            items = [self.expr(i, depth - 1, must, guarded) for _ in range(n)]
            empty_last = (not must) and r.random() < 0.2
            return ("alt", items, empty_last)
        if k < 0.70 and not must:
            return ("opt", self.expr(i, depth - 1, True, guarded))
        if k < 0.76 and not must:
            return ("star", self.expr(i, depth - 1, True, guarded))
        if k < 0.82:
            return ("plus", self.expr(i, depth - 1, True, guarded))
        if k < 0.86 and not must:
            return ("and", self.expr(i, depth - 1, False, guarded))
        if k < 0.90 and not must:
            return ("not", self.expr(i, depth - 1, False, guarded))
        if k < 0.95:
            return ("cap", self.expr(i, depth - 1, must, guarded))
        # ref
        if guarded:
            j = r.randrange(self.n)
        elif i + 1 < self.n:
            j = r.randint(i + 1, self.n - 1)
        else:
            return self.term()
        if must and j <= i:
            # unknown consumption of back reference: prefix a consumer
            return ("seq", [self.term(), ("ref", j)])
        if must and not self.rule_must[j]:
            return ("seq", [self.term(), ("ref", j)])
        return ("ref", j)

    def consumes(self, e):
        t = e[0]
        if t in ("chr", "rng", "cls", "dot", "ci"):
            return True
        if t == "seq":
            return any(self.consumes(x) for x in e[1])
        if t == "alt":
            return (not e[2]) and all(self.consumes(x) for x in e[1])
        if t in ("plus", "cap"):
            return self.consumes(e[1])
        if t == "ref":
            j = e[1]
            return self.rule_must.get(j, False)
        return False

    def grammar(self):
        self.rule_must = {}
        rules = [None] * self.n
        for i in range(self.n - 1, -1, -1):
            must = self.r.random() < 0.7
            e = self.expr(i, 3, must, False)
            rules[i] = e
            self.rule_must[i] = self.consumes(e)
        # ensure reachability: rule0 := seq(rule0body, refs to unreachable as optional)
        reach = set()

        def walk(e):
            t = e[0]
            if t == "ref":
                if e[1] not in reach:
                    reach.add(e[1])
                    walk(rules[e[1]])
            elif t in ("seq", "alt"):
                for x in e[1]:
                    walk(x)
            elif t in ("opt", "star", "plus", "and", "not", "cap"):
                walk(e[1])

        reach.add(0)
        walk(rules[0])
        extra = [j for j in range(1, self.n) if j not in reach]
        # renumber actions in textual order later (printer assigns)
        if extra:
            tail = []
            for j in extra:
                if self.rule_must[j]:
                    tail.append(("opt", ("ref", j)))
                else:
                    tail.append(("seq", [("ref", j)]) if False else ("ref", j))
            rules[0] = ("seq", [rules[0]] + tail)
        return rules


def esc(c):
    if c == "\n":
        return "\\n"
    if c in "'\\[]-\"":
        return "\\" + c
    return c


class Printer:
    def __init__(self, usetext=True):
        self.usetext = usetext
        self.actions = []  # textual order -> original id

    def p(self, e, prec=0):
        # prec: 0 alt, 1 seq, 2 prefix, 3 suffix/primary
        t = e[0]
        if t == "chr":
            return "'" + esc(e[1]) + "'"
        if t == "ci":
            return '"' + e[1] + '"'
        if t == "rng":
            return "[" + esc(e[1]) + "-" + esc(e[2]) + "]"
        if t == "cls":
            return "[" + ("^" if e[2] else "") + "".join(esc(c) for c in e[1]) + "]"
        if t == "dot":
            return "."
        if t == "ref":
            return "R%d" % e[1]
        if t == "act":
            k = len(self.actions)
            self.actions.append(e[1])
            return ('{ p.rec("a%d", text) }' % k) if self.usetext else ('{ p.rec("a%d", "") }' % k)
        if t == "cap":
            return "<" + self.p(e[1], 0) + ">"
        if t == "seq":
            s = " ".join(self.p(x, 2) for x in e[1])
            return "(" + s + ")" if prec > 1 else s
        if t == "alt":
            s = " / ".join(self.p(x, 1) for x in e[1])
            if e[2]:
                s += " /"
            return "(" + s + ")" if prec > 0 else s
        if t in ("opt", "star", "plus"):
            s = self.p(e[1], 3) + {"opt": "?", "star": "*", "plus": "+"}[t]
            return "(" + s + ")" if prec > 2 else s
        if t in ("and", "not"):
            inner = self.p(e[1], 3)
            if e[1][0] == "act":
                inner = "(" + inner + ")"  # &{..} would be a predicate
            s = {"and": "&", "not": "!"}[t] + inner
            return "(" + s + ")" if prec > 2 else s
        raise Exception(t)


def hascap(rules):
    def w(e):
        t = e[0]
        if t == "cap":
            return True
        if t in ("seq", "alt"):
            return any(w(x) for x in e[1])
        if t in ("opt", "star", "plus", "and", "not"):
            return w(e[1])
        return False
    return any(w(r) for r in rules)


def render(rules, pkg, usetext=True):
    pr = Printer(usetext)
    lines = ["package %s" % pkg, "", "type G Peg {", " Trace []string", "}", ""]
    for i, e in enumerate(rules):
        lines.append("R%d <- %s" % (i, pr.p(e)))
    return "\n".join(lines) + "\n", pr.actions


# ---------------- reference interpreter ----------------
class Budget(Exception):
    pass


class Interp:
    def __init__(self, rules, actmap):
        self.rules = rules
        self.steps = 0
        # textual numbering of actions: compute by walking in print order
        self.actnum = {}
        k = 0

        def walk(e):
            nonlocal k
            t = e[0]
            if t == "act":
                self.actnum[id(e)] = k
                k += 1
            elif t in ("seq", "alt"):
                for x in e[1]:
                    walk(x)
            elif t in ("opt", "star", "plus", "and", "not", "cap"):
                walk(e[1])

        for r in rules:
            walk(r)

    def run(self, entry, inp):
        self.inp = inp
        self.steps = 0
        self.attempt = []  # all completed tokens in execution order
        self.xtrace = []
        self.xtext = ""
        toks = []
        pos = self.rule(entry, 0, toks)
        return pos, toks

    def rule(self, i, pos, toks):
        mark = len(toks)
        p = self.ev(self.rules[i], pos, toks)
        if p is None:
            del toks[mark:]
            return None
        tok = ("R%d" % i, pos, p)
        toks.append(tok)
        self.attempt.append(tok)
        return p

    def ev(self, e, pos, toks):
        self.steps += 1
        if self.steps > 200000:
            raise Budget()
        inp = self.inp
        t = e[0]
        if t == "chr":
            return pos + 1 if pos < len(inp) and inp[pos] == e[1] else None
        if t == "ci":
            return pos + 1 if pos < len(inp) and inp[pos].lower() == e[1] and inp[pos] in (e[1], e[1].upper()) else None
        if t == "rng":
            return pos + 1 if pos < len(inp) and e[1] <= inp[pos] <= e[2] else None
        if t == "cls":
            if pos >= len(inp):
                return None
            m = inp[pos] in e[1]
            return pos + 1 if m != e[2] else None
        if t == "dot":
            return pos + 1 if pos < len(inp) else None
        if t == "ref":
            return self.rule(e[1], pos, toks)
        if t == "act":
            tok = ("Action%d" % self.actnum[id(e)], pos, pos)
            self.xtrace.append("a%d|%s" % (self.actnum[id(e)], self.xtext))
            toks.append(tok)
            self.attempt.append(tok)
            return pos
        if t == "cap":
            p = self.ev(e[1], pos, toks)
            if p is None:
                return None
            tok = ("PegText", pos, p)
            self.xtext = "".join(self.inp[pos:p])
            toks.append(tok)
            self.attempt.append(tok)
            return p
        if t == "seq":
            mark = len(toks)
            p = pos
            for x in e[1]:
                p = self.ev(x, p, toks)
                if p is None:
                    del toks[mark:]
                    return None
            return p
        if t == "alt":
            for x in e[1]:
                mark = len(toks)
                p = self.ev(x, pos, toks)
                if p is not None:
                    return p
                del toks[mark:]
            return pos if e[2] else None
        if t == "opt":
            mark = len(toks)
            p = self.ev(e[1], pos, toks)
            if p is None:
                del toks[mark:]
                return pos
            return p
        if t == "star" or t == "plus":
            p = pos
            n = 0
            while True:
                mark = len(toks)
                q = self.ev(e[1], p, toks)
                if q is None:
                    del toks[mark:]
                    break
                if q == p:
                    raise Exception("nullable loop")
                p = q
                n += 1
            if t == "plus" and n == 0:
                return None
            return p
        if t == "and" or t == "not":
            mark = len(toks)
            q = self.ev(e[1], pos, toks)
            del toks[mark:]
            if t == "and":
                return pos if q is not None else None
            return pos if q is None else None
        raise Exception(t)


# ---------------- inputs ----------------
def sample(rules, rnd, i, depth=0):
    out = []

    def ev(e, d):
        t = e[0]
        if d > 12:
            return
        if t == "chr":
            out.append(e[1])
        elif t == "ci":
            out.append(rnd.choice([e[1], e[1].upper()]))
        elif t == "rng":
            out.append(chr(rnd.randint(ord(e[1]), ord(e[2]))))
        elif t == "cls":
            out.append(rnd.choice(e[1]) if not e[2] else rnd.choice([c for c in ALPHA + ["z"] if c not in e[1]]))
        elif t == "dot":
            out.append(rnd.choice(ALPHA + EXTRA))
        elif t == "ref":
            ev(rules[e[1]], d + 1)
        elif t == "cap":
            ev(e[1], d)
        elif t == "seq":
            for x in e[1]:
                ev(x, d)
        elif t == "alt":
            k = rnd.randrange(len(e[1]) + (1 if e[2] else 0))
            if k < len(e[1]):
                ev(e[1][k], d)
        elif t == "opt":
            if rnd.random() < 0.5:
                ev(e[1], d)
        elif t in ("star", "plus"):
            for _ in range(rnd.randint(0 if t == "star" else 1, 3)):
                ev(e[1], d)
        elif t == "and":
            pass
        elif t == "not":
            pass

    ev(rules[i], depth)
    return out[:40]


def mutate(s, rnd):
    s = list(s)
    for _ in range(rnd.randint(1, 2)):
        k = rnd.random()
        if s and k < 0.3:
            del s[rnd.randrange(len(s))]
        elif k < 0.6:
            s.insert(rnd.randint(0, len(s)), rnd.choice(ALPHA + EXTRA))
        elif s and k < 0.85:
            s[rnd.randrange(len(s))] = rnd.choice(ALPHA + EXTRA)
        elif s:
            s = s[: rnd.randrange(len(s))]
    return s


RUNNER = """package %(pkg)s

import (
	"fmt"
	"strings"
)

func (p *G[U]) rec(id string, text string) { p.Trace = append(p.Trace, id+"|"+text) }

var reused *G[uint16]

func Run(entry int, in string, memo bool) (res string) {
	defer func() {
		if r := recover(); r != nil {
			res = fmt.Sprintf("PANIC %%v", r)
		}
	}()
	a := run1(entry, in, memo, false)
	if memo {
		b := run1(entry, in, memo, true)
		if a != b {
			return "REUSEDIFF fresh=" + a + " reused=" + b
		}
	}
	return a
}

func run1(entry int, in string, memo bool, reuse bool) (res string) {
	if reuse {
		if reused == nil {
			reused = &G[uint16]{}
			reused.Init(Size[uint16](1))
		}
		reused.Buffer = in
		reused.Reset()
		return obs(reused, entry)
	}
	p := &G[uint32]{Buffer: in}
	if memo {
		p.Init()
	} else {
		p.Init(DisableMemoize[uint32]())
	}
	return obs(p, entry)
}

func obs[U Uint](p *G[U], entry int) string {
	p.Trace = nil
	if p.rules[entry+1] == nil {
		return "NILRULE"
	}
	err := p.Parse(entry + 1)
	if err != nil {
		pe := err.(*parseError[U])
		return fmt.Sprintf("FAIL %%s %%d %%d MSG=%%s", rul3s[pe.maxToken.pegRule], pe.maxToken.begin, pe.maxToken.end, err.Error())
	}
	var sb strings.Builder
	sb.WriteString("OK")
	for _, t := range p.Tokens() {
		fmt.Fprintf(&sb, " %%s:%%d:%%d", rul3s[t.pegRule], t.begin, t.end)
	}
	%(exec)s
	sb.WriteString(" T=" + strings.Join(p.Trace, ","))
	sb.WriteString(" TREE=" + p.SprintSyntaxTree())
	return sb.String()
}
"""

RUNNER_NOAST = """package %(pkg)s

import (
	"fmt"
	"strings"
)

func (p *G[U]) rec(id string, text string) { p.Trace = append(p.Trace, id+"|"+text) }

func Run(entry int, in string, memo bool) (res string) {
	defer func() {
		if r := recover(); r != nil {
			res = fmt.Sprintf("PANIC %%v", r)
		}
	}()
	p := &G[uint32]{Buffer: in}
	p.Init()
	if p.rules[entry+1] == nil {
		return "NILRULE"
	}
	err := p.Parse(entry + 1)
	if err != nil {
		return "FAIL T=" + strings.Join(p.Trace, ",")
	}
	return "OK T=" + strings.Join(p.Trace, ",")
}
"""

NOAST = [("n0", ["-noast"]), ("n1", ["-noast", "-inline"]), ("n2", ["-noast", "-switch"]), ("n3", ["-noast", "-inline", "-switch"])]
VARIANTS = [("v0", []), ("v1", ["-inline"]), ("v2", ["-switch"]), ("v3", ["-inline", "-switch"])]


def goquote(t):
    out = ['"']
    for c in t:
        if c == '"':
            out.append('\\"')
        elif c == "\\":
            out.append("\\\\")
        elif c == "\n":
            out.append("\\n")
        elif c == "\x00":
            out.append("\\x00")
        else:
            out.append(c)
    out.append('"')
    return "".join(out)


def treeprint(toks, runes):
    # reference: nest non-empty tokens by post-order
    stack = []  # list of (tok, children)
    for tk in toks:
        if tk[1] == tk[2]:
            continue
        kids = []
        while stack and stack[-1][0][1] >= tk[1] and stack[-1][0][2] <= tk[2]:
            kids.insert(0, stack.pop())
        stack.append((tk, kids))
    out = []

    def pr(n, d):
        out.append(" " * d + n[0][0] + " " + goquote("".join(runes[n[0][1] : n[0][2]])) + "\n")
        for k in n[1]:
            pr(k, d + 1)

    # peg prints only the top of stack chain (root + its next links); after a full parse there is one root
    for n in stack[-1:]:
        pr(n, 0)
    return "".join(out)


def linecol(runes, off):
    line = 1 + sum(1 for c in runes[:off] if c == "\n")
    # peg convention: symbol counts runes since last newline including the one at off; newline itself -> (line+1, 0)
    if off < len(runes) and runes[off] == "\n":
        return (line + 1, 0)
    col = 0
    i = off
    while i >= 0 and not (i < len(runes) and runes[i] == "\n" and i != off):
        col += 1
        i -= 1
    return (line, col)


def errmsg(best, runes):
    name, b, e = best if best else ("Unknown", 0, 0)
    lb = linecol(runes, b)
    le = linecol(runes, e)
    return "\nparse error near %s (line %d symbol %d - line %d symbol %d):\n%s\n" % (name, lb[0], lb[1], le[0], le[1], goquote("".join(runes[b:e])))


def main():
    seed = int(sys.argv[1])
    ngram = int(sys.argv[2])
    switchy = len(sys.argv) > 3 and sys.argv[3] == "switchy"
    rnd = random.Random(seed)
    shutil.rmtree(ROOT, ignore_errors=True)
    os.makedirs(ROOT)
    open(ROOT + "/go.mod", "w").write("module lab\n\ngo 1.25\n")
    grams = []
    gen_fail = []
    for g in range(ngram):
        G = Gen(rnd, rnd.randint(2, 5), switchy)
        rules = G.grammar()
        cases = []
        for entry in range(len(rules)):
            ins = set()
            for _ in range(6):
                s = sample(rules, rnd, entry)
                ins.add("".join(s))
                ins.add("".join(mutate(s, rnd)))
                ins.add("".join(mutate(s, rnd)))
            ins.add("")
            ins.add("".join(rnd.choice(ALPHA) for _ in range(rnd.randint(1, 6))))
            for s in sorted(ins):
                cases.append((entry, s))
        grams.append((rules, cases))
        for v, opts in VARIANTS:
            pkg = "g%dx%s" % (g, v)
            d = ROOT + "/" + pkg
            os.makedirs(d)
            text, actions = render(rules, pkg)
            open(d + "/g.peg", "w").write(text)
            r = subprocess.run([PEG] + opts + ["-output", d + "/g.peg.go", d + "/g.peg"], capture_output=True, text=True)
            if r.returncode != 0 or r.stderr.strip():
                gen_fail.append((pkg, r.returncode, r.stderr.strip()[:300]))
            open(d + "/runner.go", "w").write(RUNNER % {"pkg": pkg, "exec": "p.Execute()" if actions else ""})
        for v, opts in NOAST:
            pkg = "g%dx%s" % (g, v)
            d = ROOT + "/" + pkg
            os.makedirs(d)
            text, actions = render(rules, pkg, usetext=hascap(rules))
            open(d + "/g.peg", "w").write(text)
            r = subprocess.run([PEG] + opts + ["-output", d + "/g.peg.go", d + "/g.peg"], capture_output=True, text=True)
            if r.returncode != 0 or r.stderr.strip():
                gen_fail.append((pkg, r.returncode, r.stderr.strip()[:300]))
            open(d + "/runner.go", "w").write(RUNNER_NOAST % {"pkg": pkg})
    print("generated", ngram, "grammars; generator complaints:", len(gen_fail))
    for x in gen_fail[:10]:
        print("  GEN", x)
    env = dict(os.environ, GOFLAGS="-mod=mod", GOPROXY="off", GOCACHE="/tmp/probe/lab/cache")
    r = subprocess.run(["go", "build", "./..."], cwd=ROOT, env=env, capture_output=True, text=True)
    bad = set()
    for line in r.stderr.splitlines():
        if line.startswith("# lab/"):
            bad.add(line[6:].strip())
    errs = [l for l in r.stderr.splitlines() if not l.startswith("#")]
    print("build failures:", len(bad), sorted(bad)[:10])
    kinds = {}
    for l in errs:
        k = l.split(": ", 1)[-1]
        k = "".join(c for c in k if not c.isdigit())
        kinds[k] = kinds.get(k, 0) + 1
    for k, v in sorted(kinds.items(), key=lambda kv: -kv[1])[:10]:
        print("   ", v, k)
    # main
    imports = []
    body = []
    for g in range(ngram):
        for v, _ in VARIANTS + NOAST:
            pkg = "g%dx%s" % (g, v)
            if pkg in bad:
                continue
            imports.append('\t"lab/%s"' % pkg)
            body.append('\t"%s": %s.Run,' % (pkg, pkg))
    open(ROOT + "/main.go", "w").write(
        'package main\n\nimport (\n\t"bufio"\n\t"encoding/json"\n\t"fmt"\n\t"os"\n'
        + "\n".join(imports)
        + '\n)\n\nvar reg = map[string]func(int, string, bool) string{\n'
        + "\n".join(body)
        + "\n}\n\ntype C struct {\n\tP string\n\tE int\n\tI string\n\tM bool\n}\n\n"
        + "func main() {\n\tsc := bufio.NewScanner(os.Stdin)\n\tsc.Buffer(make([]byte, 1<<20), 1<<26)\n\tw := bufio.NewWriter(os.Stdout)\n\tdefer w.Flush()\n"
        + "\tfor sc.Scan() {\n\t\tvar c C\n\t\tif err := json.Unmarshal(sc.Bytes(), &c); err != nil {\n\t\t\tpanic(err)\n\t\t}\n"
        + "\t\tf := reg[c.P]\n\t\tif f == nil {\n\t\t\tfmt.Fprintln(w, \"\\\"NOPKG\\\"\")\n\t\t\tcontinue\n\t\t}\n"
        + "\t\tb, _ := json.Marshal(f(c.E, c.I, c.M))\n\t\tw.Write(b)\n\t\tw.WriteByte('\\n')\n\t}\n}\n"
    )
    r = subprocess.run(["go", "build", "-o", "labbin", "."], cwd=ROOT, env=env, capture_output=True, text=True)
    if r.returncode != 0:
        print("LINK FAIL", r.stderr[:2000])
        return
    reqs = []
    for g, (rules, cases) in enumerate(grams):
        for entry, s in cases:
            for v, _ in VARIANTS:
                for memo in (True, False):
                    reqs.append({"P": "g%dx%s" % (g, v), "E": entry, "I": s, "M": memo, "g": g})
            for v, _ in NOAST:
                reqs.append({"P": "g%dx%s" % (g, v), "E": entry, "I": s, "M": True, "g": g})
    inp = "\n".join(json.dumps({k: q[k] for k in "PEIM"}) for q in reqs) + "\n"
    open(ROOT + "/reqs.jsonl", "w").write(inp)
    r = subprocess.run(["bash", "-c", "ulimit -v 8000000; timeout 300 ./labbin"], cwd=ROOT, input=inp, capture_output=True, text=True)
    print("runner rc", r.returncode, "stderr tail:", r.stderr[-600:])
    lines = r.stdout.splitlines()
    if r.returncode != 0:
        lines = lines[:-1]
        print("LAST OK REQUEST INDEX", len(lines) - 1, "crashing request:", reqs[len(lines)] if len(lines) < len(reqs) else None)
    outs = [json.loads(l) for l in lines]
    print("requests", len(reqs), "responses", len(outs), "rc", r.returncode, r.stderr[:300])
    # judge
    stats = {"ref_mismatch": 0, "variant_mismatch": 0, "memo_mismatch": 0, "panic": 0, "ok": 0, "fail": 0, "nil": 0, "budget": 0}
    shown = {}
    byreq = {}
    for q, o in zip(reqs, outs):
        byreq[(q["P"], q["E"], q["I"], q["M"])] = o
    for g, (rules, cases) in enumerate(grams):
        it = Interp(rules, None)
        for entry, s in cases:
            try:
                pos, toks = it.run(entry, list(s))
            except Budget:
                stats["budget"] += 1
                continue
            if pos is None:
                best = None
                for tk in it.attempt:
                    if tk[1] != tk[2] and (best is None or tk[2] > best[2]):
                        best = tk
                exp = "FAIL %s %d %d" % (best if best else ("Unknown", 0, 0))
                exp += " MSG=" + errmsg(best, list(s))
                stats["fail"] += 1
            else:
                stats["ok"] += 1
                exp = "OK" + "".join(" %s:%d:%d" % tk for tk in toks)
                # trace
                text = ""
                tr = []
                runes = list(s)
                for tk in toks:
                    if tk[0] == "PegText":
                        text = "".join(runes[tk[1] : tk[2]])
                    elif tk[0].startswith("Action"):
                        tr.append("a%s|%s" % (tk[0][6:], text))
                exp += " T=" + ",".join(tr)
                exp += " TREE=" + treeprint(toks, runes)
            heavy = it.steps > 20000
            usetext = hascap(rules)
            xtr = ",".join(it.xtrace if usetext else [x.split("|")[0] + "|" for x in it.xtrace])
            for v, _ in NOAST:
                o = byreq.get(("g%dx%s" % (g, v), entry, s, True))
                if o is None or o == "NOPKG" or o == "NILRULE":
                    continue
                kind = None
                if o.startswith("PANIC"):
                    kind = "panic"
                elif o.startswith("OK") != (pos is not None):
                    kind = "noast_verdict"
                elif v in ("n0", "n1") and o.split(" T=", 1)[1] != xtr:
                    kind = "noast_trace"
                if kind:
                    stats[kind] = stats.get(kind, 0) + 1
                    stats[kind + ":" + v] = stats.get(kind + ":" + v, 0) + 1
                    if shown.get((kind, v), 0) < 2:
                        shown[(kind, v)] = shown.get((kind, v), 0) + 1
                        print("----", kind, v, "g%d" % g, "entry", entry, "input", repr(s))
                        print(open(ROOT + "/g%dx%s/g.peg" % (g, v)).read().split("}\n\n", 1)[1].rstrip())
                        print("   expected:", "OK" if pos is not None else "FAIL", "T=" + xtr)
                        print("   observed:", o)
            base = byreq.get(("g%dxv0" % g, entry, s, True))
            for v, _ in VARIANTS:
                for memo in (True, False):
                    o = byreq.get(("g%dx%s" % (g, v), entry, s, memo))
                    if o is None or o == "NOPKG":
                        continue
                    if o == "NILRULE":
                        stats["nil"] += 1
                        continue
                    kind = None
                    if o.startswith("PANIC"):
                        kind = "panic"
                    elif o.startswith("REUSEDIFF"):
                        kind = "reuse_mismatch"
                    elif v == "v0" and memo and o != exp:
                        kind = "ref_mismatch"
                    elif v == "v0" and not memo and o != base:
                        kind = "memo_mismatch"
                    elif v != "v0" and base is not None and base != "NOPKG":
                        # under -switch compare verdict+tokens on success, verdict only on failure
                        if o.startswith("OK") or base.startswith("OK"):
                            if o != base:
                                kind = "variant_mismatch"
                    if kind:
                        stats[kind] += 1
                        stats[kind + ":" + v] = stats.get(kind + ":" + v, 0) + 1
                        key = (kind, v)
                        if shown.get(key, 0) < 3:
                            shown[key] = shown.get(key, 0) + 1
                            print("----", kind, v, "memo" if memo else "nomemo", "g%d" % g, "entry", entry, "input", repr(s))
                            print(open(ROOT + "/g%dx%s/g.peg" % (g, v)).read().split("}\n\n", 1)[1].rstrip())
                            print("   expected/base:", exp if kind == "ref_mismatch" else base)
                            print("   observed     :", o)
    print(stats)


main()
