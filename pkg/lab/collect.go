package lab

import (
	"sort"
	"strings"
	"time"

	"pgregory.net/rapid"

	"verif/pkg/drv"
	"verif/pkg/gram"
	"verif/pkg/lab/proto"
	"verif/pkg/refpeg"
)

// CollectOpts parameterises a batch of generated cases.
type CollectOpts struct {
	N         int      // number of grammars
	Profiles  []string // cycled through by case index
	Inputs    int      // approximate number of generated inputs per grammar
	Spelling  bool     // draw spelling variants for the rendering (otherwise canonical)
	Hostile   bool     // add the fixed hostile inputs
	Long      bool     // add long repetitions
	Pumped    int      // add this many inputs of up to 240 runes whose repetitions iterate many times
	LeadSwap  bool     // add inputs whose first character is exchanged for each of the characters choices dispatch on
	Pad       int      // percent of grammars padded with filler rules so that rule numbers straddle 255 / 256
	Huge      int      // add this many inputs of up to 6000 runes (repetitions iterate up to 2999 times): thousands of tokens
	Histories int      // number of histories per grammar
	MaxRune   bool     // allow U+10FFFF in terminals
	FirstID   int
	// Score ranks candidate inputs of an entry (higher is better); the collector draws four
	// times the quota and keeps the best. It must be a pure function of its arguments.
	Score    func(g *gram.Grammar, entry int, input []rune) int
	Exclude  func(g *gram.Grammar) string // known-finding shapes: non-empty => redraw
	Excluded map[string]int               // counted exclusions (out)
	Rejected *int                         // grammars failing the independent well-formedness re-check (out, expected 0)
}

// HostileInputs is the fixed hostile set of DESIGN.md 3.2 (d).
var HostileInputs = []string{"", "\n", "\x00", "\xff", "a\xffb", "\xf0\x9f", "\U0010FFFF", "a\U0010FFFF", "\r\n", "é", "世", "😀", "�", "\uFEFF", "\uFEFFa", "a\uFEFF"}

// Collect draws N cases with rapid; the batch is a pure function of (generators, seed, opts).
func Collect(seed uint64, o CollectOpts) []*Case {
	var cases []*Case
	idx := 0
	prop := func(t *rapid.T) {
		pname := o.Profiles[idx%len(o.Profiles)]
		p := gram.Profiles[pname]
		p.MaxRune = o.MaxRune
		var g *gram.Grammar
		for tries := 0; ; tries++ {
			g = gram.WellFormedGrammar(t, p)
			if !g.WellFormed() {
				if o.Rejected != nil {
					*o.Rejected++
				}
				if tries < 20 {
					continue
				}
				t.Skip("no well-formed grammar")
			}
			if o.Exclude != nil {
				if shape := o.Exclude(g); shape != "" {
					if o.Excluded != nil {
						o.Excluded[shape]++
					}
					if tries < 50 {
						continue
					}
					t.Skip("excluded shape")
				}
			}
			break
		}
		if o.Pad > 0 && rapid.IntRange(0, 99).Draw(t, "pad?") < o.Pad && len(g.Rules) >= 2 {
			// rule numbers count from 1 in grammar order; actions and the capture pseudo-rule
			// follow the rules. Put the boundary between two of the grammar's own rules, or
			// between its rules and its actions.
			at := rapid.IntRange(1, len(g.Rules)).Draw(t, "padat")
			target := rapid.IntRange(253, 258).Draw(t, "padtarget")
			gram.PadRules(g, at, target-at)
			g.Number()
		}
		cs := &Case{ID: o.FirstID + idx, Profile: pname, G: g}
		if o.Spelling && rapid.IntRange(0, 2).Draw(t, "spell?") > 0 {
			cs.Spell = rapid.SliceOfN(rapid.IntRange(0, 1<<12), 24, 24).Draw(t, "spell")
			// most positions canonical: sparse vector
			for i := range cs.Spell {
				if rapid.IntRange(0, 3).Draw(t, "sparse") != 0 {
					cs.Spell[i] = 0
				}
			}
		}
		if g.Count(gram.KAct) >= 2 && rapid.IntRange(0, 3).Draw(t, "actstyle") == 0 {
			cs.ActStyle = 1
		}
		ch := gram.RapidChooser{T: t}
		seen := map[string]bool{}
		add := func(s string) {
			if !seen[s] {
				seen[s] = true
				cs.Inputs = append(cs.Inputs, proto.QStr(s))
			}
		}
		per := o.Inputs / (3 * len(g.Rules))
		if per < 1 {
			per = 1
		}
		for e := range g.Rules {
			if o.Score == nil {
				for k := 0; k < per; k++ {
					s := gram.Sample(g, e, ch, 24)
					add(string(s))
					add(string(gram.Mutate(s, ch)))
					add(string(gram.Mutate(s, ch)))
				}
				continue
			}
			type cand struct {
				s     string
				score int
			}
			var cands []cand
			for k := 0; k < per*4; k++ {
				s := gram.Sample(g, e, ch, 24)
				for _, x := range [][]rune{s, gram.Mutate(s, ch), gram.Mutate(s, ch)} {
					cands = append(cands, cand{string(x), o.Score(g, e, x)})
				}
			}
			sort.SliceStable(cands, func(i, j int) bool { return cands[i].score > cands[j].score })
			kept := 0
			for _, cd := range cands {
				if kept >= per*3 {
					break
				}
				if !seen[cd.s] {
					add(cd.s)
					kept++
				}
			}
		}
		if o.LeadSwap {
			// what one alternative of a choice accepts, behind the first character of another
			for e := range g.Rules {
				rs := gram.Sample(g, e, ch, 24)
				if len(rs) < 2 {
					continue
				}
				for _, r := range "abcdef01" {
					if r != rs[0] {
						add(string(r) + string(rs[1:]))
					}
				}
			}
		}
		for k := 0; k < 3; k++ {
			n := rapid.IntRange(1, 6).Draw(t, "rndlen")
			var sb strings.Builder
			for i := 0; i < n; i++ {
				sb.WriteRune(rapid.SampledFrom([]rune{'a', 'b', 'c', 'd', '\n', 'é'}).Draw(t, "rnd"))
			}
			add(sb.String())
		}
		add("")
		if o.Hostile {
			for _, h := range HostileInputs {
				add(h)
			}
			// an invalid byte spliced into a sampled string
			s := string(gram.Sample(g, 0, ch, 12))
			k := rapid.IntRange(0, len(s)).Draw(t, "splice")
			add(s[:k] + "\xff" + s[k:])
			add(s + "\x00")
			// one rune of an accepted text replaced by a single invalid byte (or NUL, or the
			// largest code point) at a place where the grammar takes any character: the parse
			// goes on across it, and offsets behind it differ between bytes and runes
			kept := 0
			for try := 0; try < 6 && kept < 3; try++ {
				rs := gram.Sample(g, 0, ch, 24)
				if len(rs) == 0 {
					continue
				}
				bad := rapid.SampledFrom([]string{"\xff", "\x80", "\xc3", "\x00", "\U0010FFFF", "\xed\xa0\x80", "\uFEFF", "\uFEFF"}).Draw(t, "hostilebyte")
				// every position is tried, those inside a capture that an action reads first
				var order []int
				inCap := map[int]bool{}
				if r := refpeg.Run(g, 0, rs, 20000); r.OK {
					for _, x := range refpeg.ExecTrace(r.Root, rs) {
						for at := x.B; at < x.E; at++ {
							if !inCap[at] {
								inCap[at] = true
								order = append(order, at)
							}
						}
					}
				}
				for at := range rs {
					if !inCap[at] {
						order = append(order, at)
					}
				}
				if bad == "\uFEFF" {
					// a byte order mark is a character like any other: first of all in front
					order = append([]int{0}, order...)
				}
				for _, at := range order {
					in := string(rs[:at]) + bad + string(rs[at+1:])
					if r := refpeg.Run(g, 0, []rune(in), 20000); r.OK && r.End > at {
						add(in)
						kept++
						break
					}
				}
			}
		}
		for k := 0; k < o.Pumped; k++ {
			s := gram.SamplePumped(g, 0, ch, 240, 48)
			if len(s) < 40 {
				// no repetition on the way: repeat what there is (a prefix usually still matches)
				unit := s
				if len(unit) == 0 {
					unit = []rune{'a'}
				}
				for len(s) < 120 {
					s = append(s, unit...)
				}
			}
			add(string(s))
		}
		if o.Huge > 0 {
			// draw four times the quota and keep the best by the property's own ranking
			type hc struct {
				s     string
				score int
			}
			var hcs []hc
			for k := 0; k < 4*o.Huge; k++ {
				if s := gram.SamplePumped(g, 0, ch, 6000, 3000); len(s) > 240 {
					sc := 0
					if o.Score != nil {
						sc = o.Score(g, 0, s)
					}
					hcs = append(hcs, hc{string(s), sc})
				}
			}
			sort.SliceStable(hcs, func(i, j int) bool { return hcs[i].score > hcs[j].score })
			for k := 0; k < len(hcs) && k < o.Huge; k++ {
				add(hcs[k].s)
			}
		}
		if o.Long {
			body := string(gram.Sample(g, 0, ch, 6))
			if body == "" {
				body = "a"
			}
			add(strings.Repeat(body, 5000/len([]rune(body))+1))
		}
		for h := 0; h < o.Histories; h++ {
			n := rapid.IntRange(2, 8).Draw(t, "histlen")
			var steps []proto.Step
			for i := 0; i < n; i++ {
				var in proto.QStr
				if i > 0 && rapid.IntRange(0, 4).Draw(t, "repeat") == 0 {
					in = steps[rapid.IntRange(0, i-1).Draw(t, "which")].Input
				} else {
					in = cs.Inputs[rapid.IntRange(0, len(cs.Inputs)-1).Draw(t, "hin")]
				}
				steps = append(steps, proto.Step{Entry: rapid.IntRange(0, len(g.Rules)-1).Draw(t, "hentry"), Input: in})
			}
			cs.Hist = append(cs.Hist, steps)
		}
		cases = append(cases, cs)
		idx++
	}
	res := drv.RunRapid("collect", o.N, seed, time.Second, prop)
	if res.Failed {
		drv.Inconclusive("case collection failed: %s", res.Log)
	}
	return cases
}
