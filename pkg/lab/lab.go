// Package lab builds generated parsers in batches and runs them in worker processes
// (engine E2): the sources come from the current /repo front end and code generator run
// in process; a runner.go rendered next to each generated file exposes the observations.
package lab

import (
	"bufio"
	"bytes"
	_ "embed"
	"encoding/json"
	"fmt"
	"io"
	"os"
	"os/exec"
	"path/filepath"
	"regexp"
	"sort"
	"strconv"
	"strings"
	"sync"
	"sync/atomic"
	"text/template"
	"time"

	"verif/pkg/drv"
	"verif/pkg/fe"
	"verif/pkg/gram"
	"verif/pkg/lab/proto"
)

//go:embed proto/proto.go
var protoSrc string

//go:embed tmpl/runner_ast.go.txt
var runnerAST string

//go:embed tmpl/runner_noast.go.txt
var runnerNoAST string

//go:embed tmpl/main.go.txt
var mainSrc string

//go:embed tmpl/runner_shipped.go.txt
var runnerShipped string

//go:embed tmpl/fuzz_shipped_test.go.txt
var FuzzShippedTemplate string

// RawPackage is a prepared package (generated parser plus helper files) for BuildRaw.
type RawPackage struct {
	Name   string
	Struct string            // parser type name, for the generic runner
	Files  map[string][]byte // file name -> content (package clauses already rewritten)
}

// Variant is one option set of the generator.
type Variant struct {
	Name                  string
	Inline, Switch, NoAST bool
}

var (
	V0 = Variant{"v0", false, false, false}
	V1 = Variant{"v1", true, false, false}
	V2 = Variant{"v2", false, true, false}
	V3 = Variant{"v3", true, true, false}
	N0 = Variant{"n0", false, false, true}
	N1 = Variant{"n1", true, false, true}
	N2 = Variant{"n2", false, true, true}
	N3 = Variant{"n3", true, true, true}

	AllVariants = []Variant{V0, V1, V2, V3, N0, N1, N2, N3}
	ASTVariants = []Variant{V0, V1, V2, V3}
)

func (v Variant) Args() []string {
	a := []string{"peg"}
	if v.Inline {
		a = append(a, "-inline")
	}
	if v.Switch {
		a = append(a, "-switch")
	}
	if v.NoAST {
		a = append(a, "-noast")
	}
	return a
}

func (v Variant) Flags() string { return strings.Join(v.Args()[1:], " ") }

// Case is one generated grammar with its spelling and inputs.
type Case struct {
	ID      int           `json:"id"`
	Profile string        `json:"profile"`
	G       *gram.Grammar `json:"g"`
	Spell   []int         `json:"spell,omitempty"`
	// ActStyle 1: the probe actions of the grammar are the same text except for the number of
	// blanks inside a string literal (action code is opaque: nothing may normalise it)
	ActStyle int            `json:"act_style,omitempty"`
	Inputs   []proto.QStr   `json:"inputs"`
	Hist     [][]proto.Step `json:"hist,omitempty"`
}

// Render produces the grammar text of a case for AST or no-AST parsers (the action probes
// differ because begin/end are not in scope of inline actions).
func Render(c *Case, pkg string, noast bool) string {
	g := c.G.Clone()
	g.Package = pkg
	g.Struct = "G"
	g.Fields = "\n Trace []TraceRec\n N int\n"
	hasCap := g.Count(gram.KCap) > 0
	p := gram.Printer{G: g, S: &gram.Spell{V: c.Spell}, ActionText: func(e *gram.Expr) string {
		var probe string
		id := fmt.Sprintf("a%d", e.ActID)
		if c.ActStyle == 1 {
			id = strings.Repeat(" ", e.ActID+1)
		}
		switch {
		case !noast:
			probe = fmt.Sprintf(`p.rec("%s", text, begin, end)`, id)
		case hasCap:
			probe = fmt.Sprintf(`p.rec1("%s", text)`, id)
		default:
			probe = fmt.Sprintf(`p.rec0("%s")`, id)
		}
		if e.Wrap {
			return " if true { " + probe + " } "
		}
		return " " + probe + " "
	}}
	return p.Text()
}

// Package is one (grammar, variant) pair on its way through the lab.
type Package struct {
	Name     string
	Case     *Case
	Var      Variant
	Text     string
	Source   []byte
	GenErr   string // the generator refused, warned or panicked
	BuildErr string // go build errors of the generated file (+ runner)
}

// GenerateTimeout bounds one in-process generation. peg's analyses can loop forever on
// input they were not written for (found: a range written backwards under -switch); the
// goroutine is abandoned and the case reported as not terminating.
var GenerateTimeout = 25 * time.Second

// Hung counts generations that did not terminate (the check then ends inconclusive).
var Hung int64

// Generate runs the current front end and code generator in process, under a watchdog.
func Generate(text string, v Variant, file string) (src []byte, genErr string) {
	src, _, genErr = generateWatched(text, v, file, true)
	return src, genErr
}

// GenerateWarned is Generate without -strict: the generator prints its warnings to standard
// error and still writes the parser. The warnings are captured and returned. os.Stderr is
// swapped for the duration of the call: not for concurrent use.
func GenerateWarned(text string, v Variant, file string) (src []byte, warnings string, genErr string) {
	return generateWatched(text, v, file, false)
}

func generateWatched(text string, v Variant, file string, strict bool) (src []byte, warnings string, genErr string) {
	type res struct {
		src       []byte
		warn, err string
	}
	done := make(chan res, 1)
	saved := os.Stderr
	go func() {
		s, w, e := generate(text, v, file, strict)
		done <- res{s, w, e}
	}()
	select {
	case r := <-done:
		return r.src, r.warn, r.err
	case <-time.After(GenerateTimeout):
		os.Stderr = saved
		atomic.AddInt64(&Hung, 1)
		return nil, "", fmt.Sprintf("generator did not terminate within %v", GenerateTimeout)
	}
}

func generate(text string, v Variant, file string, strict bool) (src []byte, warnings string, genErr string) {
	defer func() {
		if r := recover(); r != nil {
			genErr = fmt.Sprintf("generator panic: %v", r)
			src = nil
		}
	}()
	res := fe.Parse(text, v.Inline, v.Switch, v.NoAST)
	if res.Panic != "" {
		return nil, "", "front end panic: " + res.Panic
	}
	if res.Err != nil {
		return nil, "", "front end rejects the grammar: " + strings.TrimSpace(res.Err.Error())
	}
	res.Tree.Strict = strict
	var buf bytes.Buffer
	if strict {
		if err := res.Tree.Compile(file, v.Args(), &buf); err != nil {
			return buf.Bytes(), "", "Compile: " + err.Error()
		}
		return buf.Bytes(), "", ""
	}
	pr, pw, err := os.Pipe()
	if err != nil {
		return nil, "", "pipe: " + err.Error()
	}
	got := make(chan string, 1)
	go func() {
		b, _ := io.ReadAll(pr)
		got <- string(b)
	}()
	saved := os.Stderr
	os.Stderr = pw
	func() {
		defer func() {
			os.Stderr = saved
			pw.Close()
		}()
		err = res.Tree.Compile(file, v.Args(), &buf)
	}()
	warnings = <-got
	pr.Close()
	if err != nil {
		return buf.Bytes(), warnings, "Compile: " + err.Error()
	}
	return buf.Bytes(), warnings, ""
}

// Lab is a built batch.
type Lab struct {
	Dir          string
	Bin          string
	Pkgs         map[string]*Package
	Order        []string
	Race         bool
	ctx          *drv.Ctx
	BuildSeconds float64
}

var labSeq int

//go:embed tmpl/fuzz_lab_test.go.txt
var fuzzLabSrc string

type Options struct {
	// FuzzLab: also write the native fuzz target FuzzLab (reference interpreter inside the
	// target) with the cases and seeds into the lab module. Needs the sources of pkg/gram
	// and pkg/refpeg, which are copied from the verification tree.
	FuzzLab    bool
	FuzzSeeds  []byte // JSON list of {g, entry, input}
	FuzzOracle string // verdict | tokens | differential
	// ExtraFiles are written to the root of the lab module (e.g. a fuzz test in package main).
	ExtraFiles map[string][]byte
	Race       bool
	AllU       bool // instantiate uint16/uint64/uint in v0 packages
}

func goEnv(c *drv.Ctx, dir string) []string {
	env := os.Environ()
	env = append(env, "GOFLAGS=-mod=mod", "GOPROXY=off", "GOSUMDB=off", "GOTOOLCHAIN=local",
		"GOCACHE="+filepath.Join(dir, ".gocache"), "GOWORK=off")
	return env
}

// Build generates, writes and compiles all (case, variant) packages.
func Build(c *drv.Ctx, cases []*Case, variants []Variant, opt Options) (*Lab, error) {
	start := time.Now()
	labSeq++
	dir := filepath.Join(c.Scratch, fmt.Sprintf("lab%d-%d", os.Getpid(), labSeq))
	if err := os.MkdirAll(filepath.Join(dir, "proto"), 0o755); err != nil {
		return nil, err
	}
	l := &Lab{Dir: dir, Pkgs: map[string]*Package{}, Race: opt.Race, ctx: c}
	must := func(err error) {
		if err != nil {
			panic(err)
		}
	}
	must(os.WriteFile(filepath.Join(dir, "go.mod"), []byte("module lab\n\ngo 1.25\n"), 0o644))
	must(os.WriteFile(filepath.Join(dir, "proto", "proto.go"), []byte(protoSrc), 0o644))
	tAST := template.Must(template.New("a").Parse(runnerAST))
	tNo := template.Must(template.New("n").Parse(runnerNoAST))
	for _, cs := range cases {
		for _, v := range variants {
			name := fmt.Sprintf("g%d%s", cs.ID, v.Name)
			p := &Package{Name: name, Case: cs, Var: v}
			p.Text = Render(cs, name, v.NoAST)
			p.Source, p.GenErr = Generate(p.Text, v, "g.peg.go")
			l.Pkgs[name] = p
			l.Order = append(l.Order, name)
			if p.GenErr != "" {
				continue
			}
			pd := filepath.Join(dir, name)
			must(os.MkdirAll(pd, 0o755))
			must(os.WriteFile(filepath.Join(pd, "g.peg"), []byte(p.Text), 0o644))
			must(os.WriteFile(filepath.Join(pd, "g.peg.go"), p.Source, 0o644))
			var rules []string
			for _, r := range cs.G.Rules {
				rules = append(rules, r.Name)
			}
			data := map[string]any{"Pkg": name, "Rules": rules, "HasActions": cs.G.Count(gram.KAct) > 0, "AllU": opt.AllU && v.Name == "v0"}
			var rb bytes.Buffer
			if v.NoAST {
				must(tNo.Execute(&rb, data))
			} else {
				must(tAST.Execute(&rb, data))
			}
			must(os.WriteFile(filepath.Join(pd, "runner.go"), rb.Bytes(), 0o644))
		}
	}
	if opt.FuzzLab {
		copyPkg := func(from, to, oldImport, newImport string, files ...string) {
			must(os.MkdirAll(filepath.Join(dir, to), 0o755))
			for _, f := range files {
				b, err := os.ReadFile(filepath.Join(c.Verif, from, f))
				must(err)
				must(os.WriteFile(filepath.Join(dir, to, f), bytes.ReplaceAll(b, []byte(oldImport), []byte(newImport)), 0o644))
			}
		}
		copyPkg("pkg/gram", "gram", "verif/pkg/gram", "lab/gram", "ast.go", "print.go", "analysis.go")
		copyPkg("pkg/refpeg", "refpeg", "verif/pkg/gram", "lab/gram", "refpeg.go")
		type fc struct {
			ID       int           `json:"id"`
			G        *gram.Grammar `json:"g"`
			Variants []string      `json:"variants"`
			Oracle   string        `json:"oracle"`
		}
		var fcs []fc
		for _, cs := range cases {
			var vs []string
			for _, v := range variants {
				vs = append(vs, v.Name)
			}
			fcs = append(fcs, fc{cs.ID, cs.G, vs, opt.FuzzOracle})
		}
		b, _ := json.Marshal(fcs)
		must(os.WriteFile(filepath.Join(dir, "fuzzcases.json"), b, 0o644))
		seeds := opt.FuzzSeeds
		if seeds == nil {
			seeds = []byte("[]")
		}
		must(os.WriteFile(filepath.Join(dir, "fuzzseeds.json"), seeds, 0o644))
		must(os.WriteFile(filepath.Join(dir, "fuzz_lab_test.go"), []byte(fuzzLabSrc), 0o644))
	}
	return l.finish(c, opt, start)
}

// BuildRaw compiles prepared packages with the generic single-entry runner.
func BuildRaw(c *drv.Ctx, raws []RawPackage, opt Options) (*Lab, error) {
	start := time.Now()
	labSeq++
	dir := filepath.Join(c.Scratch, fmt.Sprintf("lab%d-%d", os.Getpid(), labSeq))
	if err := os.MkdirAll(filepath.Join(dir, "proto"), 0o755); err != nil {
		return nil, err
	}
	l := &Lab{Dir: dir, Pkgs: map[string]*Package{}, Race: opt.Race, ctx: c}
	if err := os.WriteFile(filepath.Join(dir, "go.mod"), []byte("module lab\n\ngo 1.25\n"), 0o644); err != nil {
		return nil, err
	}
	_ = os.WriteFile(filepath.Join(dir, "proto", "proto.go"), []byte(protoSrc), 0o644)
	tr := template.Must(template.New("s").Parse(runnerShipped))
	for _, r := range raws {
		pd := filepath.Join(dir, r.Name)
		_ = os.MkdirAll(pd, 0o755)
		for name, b := range r.Files {
			_ = os.WriteFile(filepath.Join(pd, name), b, 0o644)
		}
		var rb bytes.Buffer
		if err := tr.Execute(&rb, map[string]any{"Pkg": r.Name, "Struct": r.Struct}); err != nil {
			return nil, err
		}
		_ = os.WriteFile(filepath.Join(pd, "verif_runner.go"), rb.Bytes(), 0o644)
		l.Pkgs[r.Name] = &Package{Name: r.Name}
		l.Order = append(l.Order, r.Name)
	}
	return l.finish(c, opt, start)
}

func (l *Lab) finish(c *drv.Ctx, opt Options, start time.Time) (*Lab, error) {
	dir := l.Dir
	must := func(err error) {
		if err != nil {
			panic(err)
		}
	}
	// compile every package; identify the ones that do not build
	args := []string{"build"}
	if opt.Race {
		args = append(args, "-race")
	}
	cmd := exec.Command(c.Go, append(args, "./...")...)
	cmd.Dir = dir
	cmd.Env = goEnv(c, dir)
	var stderr bytes.Buffer
	cmd.Stderr = &stderr
	_ = cmd.Run()
	cur := ""
	for _, line := range strings.Split(stderr.String(), "\n") {
		if strings.HasPrefix(line, "# lab/") {
			cur = strings.TrimSpace(strings.TrimPrefix(line, "# lab/"))
			if i := strings.IndexByte(cur, ' '); i >= 0 {
				cur = cur[:i]
			}
			continue
		}
		if p, ok := l.Pkgs[cur]; ok && strings.TrimSpace(line) != "" {
			if len(p.BuildErr) < 2000 {
				p.BuildErr += line + "\n"
			}
		} else if strings.TrimSpace(line) != "" && cur == "" {
			return nil, fmt.Errorf("go build: %s", drvTail(stderr.String()))
		}
	}
	var good []string
	for _, n := range l.Order {
		p := l.Pkgs[n]
		if p.GenErr == "" && p.BuildErr == "" {
			good = append(good, n)
		}
	}
	var mb bytes.Buffer
	must(template.Must(template.New("m").Parse(mainSrc)).Execute(&mb, map[string]any{"Pkgs": good}))
	must(os.WriteFile(filepath.Join(dir, "main.go"), mb.Bytes(), 0o644))
	args = []string{"build", "-o", "labbin"}
	if opt.Race {
		args = append(args, "-race")
	}
	cmd = exec.Command(c.Go, append(args, ".")...)
	cmd.Dir = dir
	cmd.Env = goEnv(c, dir)
	out, err := cmd.CombinedOutput()
	if err != nil {
		return nil, fmt.Errorf("linking the lab binary failed: %v\n%s", err, drvTail(string(out)))
	}
	l.Bin = filepath.Join(dir, "labbin")
	for name, b := range opt.ExtraFiles {
		must(os.WriteFile(filepath.Join(dir, name), b, 0o644))
	}
	// the build cache is no longer needed
	_ = exec.Command("chmod", "-R", "u+w", filepath.Join(dir, ".gocache")).Run()
	_ = os.RemoveAll(filepath.Join(dir, ".gocache"))
	l.BuildSeconds = time.Since(start).Seconds()
	return l, nil
}

func drvTail(s string) string {
	if len(s) > 3000 {
		return s[len(s)-3000:]
	}
	return s
}

// Close removes the batch directory.
func (l *Lab) Close() {
	if l != nil && l.Dir != "" {
		_ = exec.Command("chmod", "-R", "u+w", l.Dir).Run()
		_ = os.RemoveAll(l.Dir)
	}
}

// Runnable reports whether the package made it into the binary.
func (l *Lab) Runnable(name string) bool {
	p, ok := l.Pkgs[name]
	return ok && p.GenErr == "" && p.BuildErr == ""
}

// Outcome of one request.
type Outcome struct {
	Resp proto.Resp
	Hang bool // watchdog fired (reported as inconclusive, never as a violation)
	// Diverged > 0 (always together with Hang): the worker process itself burnt this many
	// seconds of CPU time on a small request (one parse of at most 300 bytes). Unlike elapsed
	// time this does not depend on how busy the machine is; callers that know a step bound for
	// the request (the reference interpreter's) may read it as "does not terminate".
	Diverged float64
	Died     string // the worker died while serving this request (stderr tail)
	BadResp  string // the response could not be decoded: a harness problem, never a violation
	Race     string // race detector report seen on the worker's stderr while serving the request
}

type worker struct {
	cmd    *exec.Cmd
	in     io.WriteCloser
	out    *bufio.Reader
	stderr *syncBuffer
}

type syncBuffer struct {
	mu sync.Mutex
	b  bytes.Buffer
}

func (s *syncBuffer) Write(p []byte) (int, error) {
	s.mu.Lock()
	defer s.mu.Unlock()
	if s.b.Len() > 1<<20 {
		s.b.Reset()
	}
	return s.b.Write(p)
}
func (s *syncBuffer) String() string {
	s.mu.Lock()
	defer s.mu.Unlock()
	return s.b.String()
}
func (s *syncBuffer) Reset() {
	s.mu.Lock()
	defer s.mu.Unlock()
	s.b.Reset()
}

func (l *Lab) startWorker() (*worker, error) {
	limit := "3500000"
	if l.Race {
		limit = "unlimited" // the race runtime reserves terabytes of address space
	}
	cmd := exec.Command("bash", "-c", "ulimit -v "+limit+"; exec "+l.Bin)
	cmd.Dir = l.Dir
	cmd.Env = append(os.Environ(), "GORACE=halt_on_error=0 exitcode=0", "GOTRACEBACK=single")
	in, err := cmd.StdinPipe()
	if err != nil {
		return nil, err
	}
	pr, pw, err := os.Pipe()
	if err != nil {
		return nil, err
	}
	cmd.ExtraFiles = []*os.File{pw}
	cmd.Stdout = io.Discard
	sb := &syncBuffer{}
	cmd.Stderr = sb
	if err := cmd.Start(); err != nil {
		return nil, err
	}
	pw.Close()
	return &worker{cmd: cmd, in: in, out: bufio.NewReaderSize(pr, 1<<20), stderr: sb}, nil
}

func (w *worker) kill() {
	if w != nil && w.cmd.Process != nil {
		_ = w.cmd.Process.Kill()
		_, _ = w.cmd.Process.Wait()
	}
}

// DivergeCPU is the CPU time (seconds) a single request must have burnt before a watchdog hit
// is reported as Diverged.
const DivergeCPU = 15.0

// procCPU returns user+system CPU seconds of a process (0 when unknown).
func procCPU(pid int) float64 {
	b, err := os.ReadFile(fmt.Sprintf("/proc/%d/stat", pid))
	if err != nil {
		return 0
	}
	i := bytes.LastIndexByte(b, ')')
	if i < 0 {
		return 0
	}
	f := strings.Fields(string(b[i+1:]))
	if len(f) < 13 {
		return 0
	}
	ut, _ := strconv.ParseFloat(f[11], 64)
	st, _ := strconv.ParseFloat(f[12], 64)
	return (ut + st) / 100
}

var raceRe = regexp.MustCompile(`(?s)WARNING: DATA RACE.*?==================`)

// Run serves all requests with up to `workers` worker processes.
func (l *Lab) Run(reqs []proto.Req, workers int, timeout time.Duration) []Outcome {
	outs := make([]Outcome, len(reqs))
	if len(reqs) == 0 {
		return outs
	}
	if workers > len(reqs) {
		workers = len(reqs)
	}
	jobs := make(chan int, len(reqs))
	for i := range reqs {
		reqs[i].ID = i
		jobs <- i
	}
	close(jobs)
	var wg sync.WaitGroup
	for k := 0; k < workers; k++ {
		wg.Add(1)
		go func() {
			defer wg.Done()
			var w *worker
			defer func() { w.kill() }()
			for i := range jobs {
				if reqs[i].Cold && w != nil {
					w.kill()
					w = nil
				}
				if w == nil {
					var err error
					if w, err = l.startWorker(); err != nil {
						outs[i].Died = "cannot start worker: " + err.Error()
						continue
					}
				}
				b, _ := json.Marshal(reqs[i])
				type rd struct {
					line []byte
					err  error
				}
				ch := make(chan rd, 1)
				go func(w *worker) {
					if _, err := w.in.Write(append(b, '\n')); err != nil {
						ch <- rd{nil, err}
						return
					}
					for {
						line, err := w.out.ReadBytes('\n')
						if err != nil {
							ch <- rd{nil, err}
							return
						}
						if bytes.HasPrefix(line, []byte("START ")) {
							continue
						}
						ch <- rd{line, nil}
						return
					}
				}(w)
				started, cpu0 := time.Now(), procCPU(w.cmd.Process.Pid)
				// Divergence is only ever read off SMALL single-parse requests: on a few hundred
				// runes every legitimate cost (quadratic copying of memoised tokens, the tree
				// printers, deep recursion, garbage collection) is milliseconds, so that
				// DivergeCPU is three to four orders of magnitude away from it. A right-recursive
				// list of 5 000 items legitimately costs seconds of CPU time on a busy machine.
				small := reqs[i].Kind == "run" && len(reqs[i].Input) <= 300
				var got *rd
			wait:
				for {
					select {
					case r := <-ch:
						got = &r
						break wait
					case <-time.After(250 * time.Millisecond):
						el := time.Since(started)
						if small {
							if cpu := procCPU(w.cmd.Process.Pid) - cpu0; cpu >= DivergeCPU {
								outs[i].Diverged = cpu
								break wait
							}
						}
						if el < timeout {
							continue
						}
						// the watchdog: a small request of a starved process gets more time to
						// show whether it is the process or the machine; anything else is a hang
						if !small || el > 6*timeout {
							break wait
						}
					}
				}
				if got == nil {
					outs[i].Hang = true
					w.kill()
					w = nil
				} else if r := *got; r.err != nil {
					time.Sleep(50 * time.Millisecond)
					outs[i].Died = "worker died: " + r.err.Error() + "\n" + drvTail(w.stderr.String())
					w.kill()
					w = nil
					continue
				} else {
					if err := json.Unmarshal(r.line, &outs[i].Resp); err != nil {
						outs[i].BadResp = err.Error()
					}
					if reqs[i].Cold {
						// give the race runtime a moment to flush its report, then retire the process
						time.Sleep(20 * time.Millisecond)
					}
					if l.Race {
						if s := w.stderr.String(); strings.Contains(s, "DATA RACE") {
							outs[i].Race = raceRe.FindString(s)
							if outs[i].Race == "" {
								outs[i].Race = drvTail(s)
							}
							w.stderr.Reset()
						}
					}
				}
				if reqs[i].Cold && w != nil {
					w.kill()
					w = nil
				}
			}
		}()
	}
	wg.Wait()
	return outs
}

// SortedPkgs returns package names in a stable order.
func (l *Lab) SortedPkgs() []string {
	s := append([]string(nil), l.Order...)
	sort.Strings(s)
	return s
}
