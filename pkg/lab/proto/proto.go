// Package proto is shared by the generated runners, the worker main and (as a copy) the driver.
package proto

import (
	"encoding/json"
	"strconv"
)

// QStr is a Go string that may hold arbitrary bytes; in JSON it travels as its Go-quoted
// ASCII form so that invalid UTF-8 survives (encoding/json would replace it by U+FFFD).
type QStr string

func (q QStr) MarshalJSON() ([]byte, error) {
	return json.Marshal(strconv.QuoteToASCII(string(q)))
}

func (q *QStr) UnmarshalJSON(b []byte) error {
	var s string
	if err := json.Unmarshal(b, &s); err != nil {
		return err
	}
	u, err := strconv.Unquote(s)
	if err != nil {
		return err
	}
	*q = QStr(u)
	return nil
}

type Tok struct {
	N string `json:"n"`
	B int    `json:"b"`
	E int    `json:"e"`
}

type Trace struct {
	ID   string `json:"id"`
	Text QStr   `json:"text"` // byte-exact: JSON strings would turn invalid UTF-8 into U+FFFD
	B    int    `json:"b"`
	E    int    `json:"e"`
}

// TNode is a syntax-tree node. On the wire a tree travels as a flat pre-order list with
// depths: a right-recursive grammar on a long input nests thousands of levels, more than
// encoding/json accepts.
type TNode struct {
	N string
	B int
	E int
	K []*TNode
}

type flatNode struct {
	N string `json:"n"`
	B int    `json:"b"`
	E int    `json:"e"`
	D int    `json:"d"`
}

func (t *TNode) MarshalJSON() ([]byte, error) {
	var flat []flatNode
	type item struct {
		n *TNode
		d int
	}
	stack := []item{{t, 0}}
	for len(stack) > 0 {
		it := stack[len(stack)-1]
		stack = stack[:len(stack)-1]
		if it.n == nil {
			continue
		}
		flat = append(flat, flatNode{it.n.N, it.n.B, it.n.E, it.d})
		for i := len(it.n.K) - 1; i >= 0; i-- {
			stack = append(stack, item{it.n.K[i], it.d + 1})
		}
	}
	return json.Marshal(flat)
}

func (t *TNode) UnmarshalJSON(b []byte) error {
	var flat []flatNode
	if err := json.Unmarshal(b, &flat); err != nil {
		return err
	}
	if len(flat) == 0 {
		return nil
	}
	*t = TNode{N: flat[0].N, B: flat[0].B, E: flat[0].E}
	path := []*TNode{t}
	for _, f := range flat[1:] {
		if f.D < 1 || f.D > len(path) {
			return strconv.ErrSyntax
		}
		n := &TNode{N: f.N, B: f.B, E: f.E}
		path = path[:f.D]
		path[f.D-1].K = append(path[f.D-1].K, n)
		path = append(path, n)
	}
	return nil
}

// Mode selects how the parser instance is set up.
type Mode struct {
	NoMemo bool   `json:"nomemo,omitempty"`
	Size   int    `json:"size,omitempty"` // 0: option not given; n>0: Size(n-1)
	U      string `json:"u,omitempty"`    // "", uint16, uint32, uint64, uint
	Pretty bool   `json:"pretty,omitempty"`
	Print  bool   `json:"print,omitempty"` // also capture PrintSyntaxTree / WriteSyntaxTree
	// TreeFirst: call the tree accessors (SprintSyntaxTree, AST) before Tokens() and Execute()
	TreeFirst bool `json:"treefirst,omitempty"`
	// RawPrint: also call PrintSyntaxTree() (the coloured printer for Pretty instances)
	// straight to the worker's standard output, which is /dev/null: nothing is observed
	// but panics and what the race detector says about concurrent instances
	RawPrint bool `json:"rawprint,omitempty"`
}

// Obs is everything observable about one parse.
type Obs struct {
	NilRule  bool    `json:"nilrule,omitempty"` // the entry has no function (inlined / unused)
	OK       bool    `json:"ok"`
	Err      string  `json:"err,omitempty"`
	ErrTok   *Tok    `json:"errtok,omitempty"`
	Tokens   []Tok   `json:"tokens,omitempty"`
	Trace    []Trace `json:"trace,omitempty"`
	Sprint   string  `json:"sprint,omitempty"`
	Write    string  `json:"write,omitempty"`
	Printed  string  `json:"printed,omitempty"`
	HasPrint bool    `json:"hasprint,omitempty"`
	AST      *TNode  `json:"ast,omitempty"`
	Pretty   string  `json:"prettyprint,omitempty"` // AST().PrettyPrint into a buffer (Pretty mode)
	Panic    string  `json:"panic,omitempty"`
	// Unstable: something already observed changed when looked at again (Tokens() re-read
	// after the other accessors; an error returned by an earlier Parse of the same text)
	Unstable string `json:"unstable,omitempty"`
	NoAST    bool   `json:"noast,omitempty"`
}

type Step struct {
	Entry int  `json:"entry"`
	Input QStr `json:"input"`
	// Again >= 0: after the parse, call Parse(Again) once more WITHOUT Reset (a program that
	// parses a header and then a body from the same buffer); the observation is that of the
	// second call. -1 / absent: single parse.
	Again *int `json:"again,omitempty"`
	// Quiet: the step is carried out (Buffer, Reset, Parse, accessors) but not reported: long
	// histories are about what the instance has been through, not about every step of it
	Quiet bool `json:"quiet,omitempty"`
}

// Req is one request to a worker.
type Req struct {
	ID    int    `json:"id"`
	Kind  string `json:"kind"` // run | hist | conc
	Pkg   string `json:"pkg,omitempty"`
	Entry int    `json:"entry,omitempty"`
	Input QStr   `json:"input,omitempty"`
	Modes []Mode `json:"modes,omitempty"` // run: one observation per mode
	Steps []Step `json:"steps,omitempty"` // hist: one instance, Reset between steps (Modes[0])
	Jobs  []Job  `json:"jobs,omitempty"`  // conc
	Procs int    `json:"procs,omitempty"`
	// Cold: serve this request as the very first thing a fresh worker process does
	// (lazily initialised package state is only unprotected the first time).
	Cold bool `json:"cold,omitempty"`
}

type Job struct {
	Pkg   string `json:"pkg"`
	Steps []Step `json:"steps"`
	Mode  Mode   `json:"mode"`
}

type Resp struct {
	ID   int     `json:"id"`
	Obs  []Obs   `json:"obs,omitempty"`
	Jobs [][]Obs `json:"jobs,omitempty"`
	Err  string  `json:"err,omitempty"`
}

// Session is a long-lived parser instance.
type Session interface {
	Step(entry int, input string) Obs
	// Again calls Parse(entry) without Reset and observes.
	Again(entry int) Obs
}

type Entry struct {
	Run func(entry int, input string, m Mode) Obs
	New func(m Mode) Session
}
