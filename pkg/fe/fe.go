// Package fe is the seam through which the checks reach peg's self-hosted front end.
// /repo/peg.peg.go is `package main` and cannot be imported, so ./check copies it into the
// scratch module as package frontend at the start of every run and the generated main
// installs Parse.
package fe

import (
	"fmt"

	"github.com/pointlander/peg/tree"
)

// Token is one token of the front end's own parse of a grammar text.
type Token struct {
	Rule       string
	Begin, End int
}

// Result of running the front end on a grammar text.
type Result struct {
	Tree   *tree.Tree
	Tokens []Token
	Err    error  // parse error of the front end (text is not a grammar)
	Panic  string // recovered panic in the front end or its builder actions
}

// Impl is installed by the generated main of the scratch module.
var Impl func(text string, inline, _switch, noast bool) (*tree.Tree, []Token, error)

// Parse runs the front end (Init, Parse, Execute) on text and returns the built tree.
func Parse(text string, inline, _switch, noast bool) (res Result) {
	defer func() {
		if r := recover(); r != nil {
			res.Panic = fmt.Sprint(r)
			res.Tree = nil
		}
	}()
	t, toks, err := Impl(text, inline, _switch, noast)
	return Result{Tree: t, Tokens: toks, Err: err}
}
