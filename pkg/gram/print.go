package gram

import (
	"fmt"
	"strings"
	"unicode"
)

// Spell is a source of spelling choices. The zero value always chooses 0, which is the
// canonical spelling. The vector is drawn by rapid, so a rendering is a pure function of
// (AST, vector).
type Spell struct {
	V    []int
	i    int
	Used map[string]int // feature name -> how often a non-canonical spelling was chosen
}

func (s *Spell) N(n int, feature string) int {
	if s == nil || len(s.V) == 0 || n <= 1 {
		return 0
	}
	v := s.V[s.i%len(s.V)] % n
	s.i++
	if v != 0 {
		if s.Used == nil {
			s.Used = map[string]int{}
		}
		s.Used[feature]++
	}
	return v
}

// Printer renders a Grammar as .peg text.
type Printer struct {
	G          *Grammar
	S          *Spell
	ActionText func(e *Expr) string // code between the braces of an action
	Arrow      string               // forced arrow spelling ("" => chosen by S)
}

// Text renders the complete grammar file.
func (p *Printer) Text() string {
	g := p.G
	g.Number()
	var sb strings.Builder
	for _, h := range g.Header {
		if p.S.N(2, "header-comment-slashes") == 1 {
			sb.WriteString("//" + h + "\n")
		} else {
			sb.WriteString("#" + h + "\n")
		}
	}
	sb.WriteString("package" + p.must() + g.Package + p.nl())
	p.imports(&sb)
	sb.WriteString("type" + p.must() + g.Struct + p.must() + "Peg" + p.sp0() + "{" + g.Fields + "}" + p.nl())
	for _, r := range g.Rules {
		arrow := p.Arrow
		if arrow == "" {
			arrow = []string{"<-", "←"}[p.S.N(2, "arrow-unicode")]
		}
		body := ""
		if r.Body != nil && r.Body.K != KEmpty {
			body = p.expr(r.Body, 0)
		} else if r.Body != nil && p.S.N(2, "empty-body-parens") == 1 {
			body = "()"
		}
		sb.WriteString(r.Name + p.sp0() + arrow + p.sp() + body + p.nl())
	}
	return sb.String()
}

func (p *Printer) imports(sb *strings.Builder) {
	g := p.G
	if len(g.Imports) == 0 {
		return
	}
	one := func(im Import) string {
		s := ""
		if im.Alias != "" {
			s = im.Alias + " "
		}
		return s + `"` + im.Path + `"`
	}
	if len(g.Imports) > 1 && p.S.N(2, "import-grouped") == 1 {
		sb.WriteString("import (\n")
		for _, im := range g.Imports {
			// the grouped form requires the newline directly after the closing quote
			sb.WriteString("\t" + one(im) + "\n")
		}
		sb.WriteString(")" + p.nl())
		return
	}
	for _, im := range g.Imports {
		sb.WriteString("import " + one(im) + p.nl())
	}
}

// spacing between tokens inside an expression (may be empty where the syntax allows)
func (p *Printer) sp() string {
	switch p.S.N(10, "spacing") {
	case 8:
		return " # c\r " // a lone carriage return ends a line, and with it a comment
	case 9:
		return " // c\r\n "
	case 1:
		return "  "
	case 2:
		return "\t"
	case 3:
		return "\n\t"
	case 4:
		return " # c\n "
	case 5:
		return " // c\n "
	case 6:
		return "\r\n "
	case 7:
		return " \r "
	}
	return " "
}

// optional spacing (canonical: one blank)
func (p *Printer) sp0() string {
	if p.S.N(4, "spacing-omitted") == 1 {
		return ""
	}
	return p.sp()
}

func (p *Printer) must() string { return p.sp() }

func (p *Printer) nl() string {
	switch p.S.N(7, "line-end") {
	case 5:
		return " # end\r"
	case 6:
		return "\r"
	case 1:
		return "\n\n"
	case 2:
		return "\r\n"
	case 3:
		return " # end\n"
	case 4:
		return "\n// between\n"
	}
	return "\n"
}

// precedence levels: 0 alternation, 1 sequence, 2 prefix, 3 suffix, 4 primary
func (p *Printer) expr(e *Expr, prec int) string {
	s, own := p.expr1(e)
	if own < prec || (own < 4 && p.S.N(12, "redundant-parens") == 1) {
		return "(" + p.sp0x() + s + p.sp0x() + ")"
	}
	return s
}

func (p *Printer) sp0x() string {
	if p.S.N(3, "paren-spacing") == 1 {
		return " "
	}
	return ""
}

func (p *Printer) expr1(e *Expr) (string, int) {
	switch e.K {
	case KEmpty:
		return "()", 4
	case KSeq:
		if len(e.Kids) == 1 {
			return p.expr1(e.Kids[0])
		}
		parts := make([]string, len(e.Kids))
		for i, k := range e.Kids {
			parts[i] = p.expr(k, 2)
		}
		var sb strings.Builder
		for i, s := range parts {
			if i > 0 {
				// two tokens may touch when no identifier/arrow ambiguity can arise;
				// keep at least a blank unless the previous one ends in a closing delimiter
				last := parts[i-1][len(parts[i-1])-1]
				if strings.IndexByte(`'"])}>`, last) >= 0 && s[0] != '-' && p.S.N(6, "seq-no-space") == 1 {
					// nothing
				} else {
					sb.WriteString(p.sp())
				}
			}
			sb.WriteString(s)
		}
		return sb.String(), 1
	case KAlt:
		if len(e.Kids) == 1 && !e.EmptyLast {
			return p.expr1(e.Kids[0])
		}
		parts := make([]string, len(e.Kids))
		for i, k := range e.Kids {
			parts[i] = p.expr(k, 1)
		}
		s := strings.Join(parts, p.sp0()+"/"+p.sp0())
		if e.EmptyLast {
			s += p.sp0() + "/"
		}
		return s, 0
	case KOpt, KStar, KPlus:
		op := map[Kind]string{KOpt: "?", KStar: "*", KPlus: "+"}[e.K]
		return p.expr(e.Kids[0], 4) + p.tiny() + op, 3
	case KAnd, KNot:
		op := map[Kind]string{KAnd: "&", KNot: "!"}[e.K]
		inner := p.expr(e.Kids[0], 3)
		if strings.HasPrefix(inner, "{") {
			// "&{...}" would be a semantic predicate, "!{...}" a state change
			inner = "(" + inner + ")"
		}
		return op + p.tiny() + inner, 2
	case KCap:
		return "<" + p.sp0x() + p.expr(e.Kids[0], 0) + p.sp0x() + ">", 4
	case KAct:
		code := e.Code
		if code == "" && p.ActionText != nil {
			code = p.ActionText(e)
		}
		return "{" + code + "}", 4
	case KPred:
		code := e.Code
		if code == "" {
			code = Predicates[e.Pred].Code
		}
		return "&" + p.tiny() + "{" + code + "}", 2
	case KState:
		code := e.Code
		if code == "" {
			code = " p.N++ "
		}
		return "!" + p.tiny() + "{" + code + "}", 2
	case KDot:
		return ".", 4
	case KRef:
		return p.G.RefName(e), 4
	case KLit:
		return p.lit(e)
	case KClass:
		return p.class(e), 4
	}
	panic(fmt.Sprintf("print: bad kind %d", e.K))
}

func (p *Printer) tiny() string {
	if p.S.N(5, "operator-spacing") == 1 {
		return " "
	}
	return ""
}

// ---- terminals

const (
	ctxSingle = iota // inside '...'
	ctxDouble        // inside "..."
	ctxClass         // inside [...] or [[...]]
)

var letterEscapes = map[rune]string{'\a': `\a`, '\b': `\b`, 0x1b: `\e`, '\f': `\f`, '\n': `\n`, '\r': `\r`, '\t': `\t`, '\v': `\v`}
var punctEscapes = map[rune]string{'\'': `\'`, '"': `\"`, '[': `\[`, ']': `\]`, '-': `\-`, '\\': `\\`}

// spellings returns the admissible spellings of rune r in the context; the first one is
// canonical. greedy[i] tells whether spelling i would absorb a following hex/octal digit.
func spellings(r rune, ctx int, first bool) (forms []string, greedy []bool) {
	add := func(s string, g bool) { forms = append(forms, s); greedy = append(greedy, g) }
	mustEscape := r == '\\'
	switch ctx {
	case ctxSingle:
		mustEscape = mustEscape || r == '\''
	case ctxDouble:
		mustEscape = mustEscape || r == '"'
	case ctxClass:
		mustEscape = mustEscape || r == ']' || r == '[' || r == '-' || (first && r == '^')
	}
	if !mustEscape && unicode.IsPrint(r) {
		add(string(r), false)
	}
	if s, ok := letterEscapes[r]; ok {
		add(s, false)
	}
	if s, ok := punctEscapes[r]; ok {
		add(s, false)
	}
	if r <= 0o377 {
		add(fmt.Sprintf(`\%03o`, r), false)
	}
	add(fmt.Sprintf(`\0x%X`, r), true)
	add(fmt.Sprintf(`\0x%04x`, r), true)
	if r <= 0o77 {
		add(fmt.Sprintf(`\%o`, r), true)
		if r <= 0o7 {
			add(fmt.Sprintf(`\%02o`, r), true)
		}
	}
	return forms, greedy
}

func absorbable(c byte, octal bool) bool {
	if octal {
		return c >= '0' && c <= '7'
	}
	return (c >= '0' && c <= '9') || (c >= 'a' && c <= 'f') || (c >= 'A' && c <= 'F')
}

func greedyIsOctal(form string) bool {
	return !strings.HasPrefix(form, `\0x`) && !strings.HasPrefix(form, `\0X`)
}

// spellLiteral spells a rune sequence as one or more adjacent quoted literals. After a
// greedy escape ("\0x41", "\7") the next character must not be absorbable: it is spelled as
// a backslash form, or - when it is a letter of a case-insensitive literal, which must stay
// raw because an escaped letter is a plain character - the literal is closed and a new one
// is opened ("\0x10FFFF" "b" is the same sequence).
func (p *Printer) spellLiteral(rs []rune, ctx int, ci bool) []string {
	var segs []string
	var sb strings.Builder
	prevGreedy, prevOctal := false, false
	for _, r := range rs {
		forms, greedy := spellings(r, ctx, false)
		if ci && isASCIILetter(r) {
			forms, greedy = []string{string(r)}, []bool{false}
		}
		k := 0
		if n := p.S.N(len(forms)+3, "escape-spelling"); n < len(forms) {
			k = n
		}
		if prevGreedy && absorbable(forms[k][0], prevOctal) {
			k = -1
			for j, f := range forms {
				if f[0] == '\\' {
					k = j
					break
				}
			}
			if k < 0 {
				segs = append(segs, sb.String())
				sb.Reset()
				k = 0
			}
		}
		sb.WriteString(forms[k])
		prevGreedy = greedy[k]
		prevOctal = prevGreedy && greedyIsOctal(forms[k])
	}
	return append(segs, sb.String())
}

func (p *Printer) lit(e *Expr) (string, int) {
	q, ctx := `'`, ctxSingle
	if e.CI {
		q, ctx = `"`, ctxDouble
	} else {
		// a literal without letters may be written with either quote
		hasLetter := false
		for _, r := range e.Runes {
			if isASCIILetter(r) {
				hasLetter = true
			}
		}
		if !hasLetter && p.S.N(4, "double-quoted-caseless") == 1 {
			q, ctx = `"`, ctxDouble
		}
	}
	segs := p.spellLiteral(e.Runes, ctx, e.CI)
	for i := range segs {
		segs[i] = q + segs[i] + q
	}
	if len(segs) == 1 {
		return segs[0], 4
	}
	return strings.Join(segs, " "), 1
}

func (p *Printer) class(e *Expr) string {
	var sb strings.Builder
	double := e.CI
	if !double {
		// [[...]] is equivalent when no member is affected by case folding: peg folds the
		// bounds of a range with the Unicode tables and single ASCII letters
		hasLetter := false
		caseless := func(r rune) bool { return unicode.ToLower(r) == r && unicode.ToUpper(r) == r }
		for _, it := range e.Items {
			if it.Lo == it.Hi {
				if isASCIILetter(it.Lo) {
					hasLetter = true
				}
			} else if !caseless(it.Lo) || !caseless(it.Hi) {
				hasLetter = true
			}
		}
		if !hasLetter && p.S.N(6, "double-bracket-caseless") == 1 {
			double = true
		}
	}
	if double {
		sb.WriteString("[[")
	} else {
		sb.WriteString("[")
	}
	if e.Neg {
		sb.WriteString("^")
	}
	for i, it := range e.Items {
		first := i == 0 && !e.Neg
		if it.Lo == it.Hi {
			// a single letter of a case-insensitive class must stay raw: an escaped
			// letter is a plain (case-sensitive) character
			sb.WriteString(p.spellClassRune(it.Lo, first, e.CI && isASCIILetter(it.Lo)))
		} else {
			sb.WriteString(p.spellClassRune(it.Lo, first, false))
			sb.WriteString("-")
			sb.WriteString(p.spellClassRune(it.Hi, false, false))
		}
	}
	if double {
		sb.WriteString("]]")
	} else {
		sb.WriteString("]")
	}
	return sb.String()
}

// spellClassRune never leaves a greedy escape open: inside a class the next character could
// be a raw hex digit of the next item, so greedy forms are avoided unless followed by '-' or ']'
// (the caller cannot know), hence only non-greedy forms and the 3-digit octal are used, or
// the hex form terminated by a following escaped item is not relied on.
func (p *Printer) spellClassRune(r rune, first bool, rawOnly bool) string {
	if rawOnly {
		return string(r)
	}
	forms, greedy := spellings(r, ctxClass, first)
	var ok []string
	for i, f := range forms {
		if !greedy[i] {
			ok = append(ok, f)
		}
	}
	if len(ok) == 0 {
		// only hex is available (non printable above 0o377): terminate it safely by padding
		// is impossible, so emit hex; callers order items so that a hex item is followed by
		// an escaped or non-hex-digit character (see ClassSafe).
		return forms[0]
	}
	n := p.S.N(len(ok)+2, "escape-spelling")
	if n >= len(ok) {
		n = 0
	}
	return ok[n]
}

// ClassSafe reports whether a class can be printed unambiguously: a rune that can only be
// spelled as a greedy hex escape must not be followed by an item starting with a hex digit.
func ClassSafe(items []Item) bool {
	onlyHex := func(r rune) bool {
		forms, greedy := spellings(r, ctxClass, false)
		for i := range forms {
			if !greedy[i] {
				return false
			}
		}
		return true
	}
	isHex := func(r rune) bool {
		return (r >= '0' && r <= '9') || (r >= 'a' && r <= 'f') || (r >= 'A' && r <= 'F')
	}
	for i, it := range items {
		last := it.Hi
		if i+1 < len(items) && onlyHex(last) && isHex(items[i+1].Lo) {
			return false
		}
		if it.Lo != it.Hi && onlyHex(it.Lo) {
			// followed by '-', fine
			_ = last
		}
	}
	return true
}
