package gram

import (
	"fmt"

	"pgregory.net/rapid"
)

// UserImports is the pool of imports a generated grammar may declare. Each is used in a
// struct field so that the generated file type-checks ("imported and not used" otherwise).
var UserImports = []struct {
	Path, Name, FieldType string // FieldType uses %s for the package qualifier
	Runtime               bool   // the generated runtime imports this package itself
}{
	{"strings", "strings", "%s.Builder", false},
	{"sort", "sort", "%s.IntSlice", false},
	{"math/big", "big", "%s.Int", false},
	{"container/list", "list", "%s.List", false},
	{"go/ast", "ast", "%s.Ident", false},
	{"text/scanner", "scanner", "%s.Position", false},
	{"math", "math", "", false}, // used through a function value
	{"fmt", "fmt", "%s.Stringer", true},
	{"io", "io", "%s.Reader", true},
	{"os", "os", "*%s.File", true},
	{"bytes", "bytes", "%s.Buffer", true},
	{"strconv", "strconv", "*%s.NumError", true},
}

// CodeSnippets are action bodies that are valid Go in both AST and no-AST parsers (they do
// not mention text/begin/end, which are not in scope of every inline action).
var ActionSnippets = []struct {
	Code, Feature string
}{
	{" p.N++ ", "plain"},
	{" /* hi */ p.N++ ", "block-comment-in-action"},
	{" p.N++ // trailing\n ", "line-comment-in-action"},
	{" if p.N > 0 { p.N-- } else { p.N++ } ", "nested-braces"},
	{" p.S = \"{}\" ", "braces-in-string"},
	{" p.S = \"*/\" ", "comment-terminator-in-string"},
	{" p.S = \"/*\" ", "comment-opener-in-string"},
	{" _ = '\\'' ", "quote-rune"},
	{" p.S = `raw\\n` ", "raw-string"},
	{" p.S = \"é世😀\\x00\" ", "non-ascii-in-action"},
	{"\n\tp.N++\n\tp.N--\n", "multi-line"},
	{"", "empty-action"},
	// characters that mean something to whatever carries the code into the output
	// (format verbs, template delimiters, escapes)
	{" p.N = p.N % 3 ", "percent-operator-in-action"},
	{" p.S = \"%d %s %v %% %!\" ", "format-verbs-in-action"},
	{" p.S = \"{{.}} {{end}}\" ", "template-delimiters-in-action"},
	{" p.S = \"\\n\\t\\\\ $1 ${x}\" ", "escapes-and-dollars-in-action"},
}

var PredSnippets = []struct {
	Code, Feature string
}{
	{" p.N >= 0 ", "plain"},
	{" true /* c */ ", "block-comment-in-predicate"},
	{" p.N >= 0 // c\n ", "line-comment-in-predicate"},
	{" p.N >= 0 &&\n true ", "multi-line-predicate"},
	{" func() bool { return true }() ", "braces-in-predicate"},
	{" p.N%2 == 0 || true ", "percent-operator-in-predicate"},
	{" p.S != \"%s{{.}}\" ", "format-verb-and-template-delimiter-in-predicate"},
}

var StateSnippets = []struct {
	Code, Feature string
}{
	{" p.N++ ", "plain"},
	{" p.N++ // c\n ", "line-comment-in-state-change"},
	{" /* c */ p.N++ ", "block-comment-in-state-change"},
	{" p.N %= 7 ", "percent-operator-in-state-change"},
	{" p.S = \"%d{{end}}\\n\" ", "format-verb-and-template-delimiter-in-state-change"},
}

// DecorateOpts selects what Decorate may add.
type DecorateOpts struct {
	NoLineCommentInPredicate bool // known finding G4 open: exclude the shape by construction
	MaxExtraRules            int
}

// Decorate turns a well-formed grammar into a "code generation" test grammar: explicit
// action / predicate / state-change code, user imports used in struct fields, header
// comments, and optionally hundreds of extra (reachable) rules. It returns the features used.
func Decorate(t *rapid.T, g *Grammar, o DecorateOpts) map[string]bool {
	feat := map[string]bool{}
	pct := func(p int, label string) bool { return rapid.IntRange(0, 99).Draw(t, label) < p }
	// code points that Go source treats specially or that escaping code tends to overlook
	special := []rune{0xFEFF, 0xFFFE, 0xFFFF, 0x2028, 0x2029, 0x85, 0xA0, 0xAD, 0x200B, 0x200E, 0x202E, 0x7F, 0x80, 0x9F, 0xD7FF, 0xE000, 0xFFFD, 0x10000, 0x1F600, 0xE0001, 0x10FFFE, 0x10FFFF, '`', '$', '%', '\r', '\t', '\v', '\f', 0x1b, 0}
	for _, r := range g.Rules {
		r.Body.Walk(func(e *Expr) {
			switch e.K {
			case KLit:
				if pct(15, "special?") {
					x := rapid.SampledFrom(special).Draw(t, "special")
					if pct(30, "anyrune") {
						x = rune(rapid.Int32Range(0, 0x10FFFF).Draw(t, "anyr"))
						if x >= 0xD800 && x <= 0xDFFF {
							x = 0xFEFF
						}
					}
					e.Runes[rapid.IntRange(0, len(e.Runes)-1).Draw(t, "spos")] = x
					feat["special-rune-in-literal"] = true
				}
			case KClass:
				if pct(10, "specialc?") {
					x := rapid.SampledFrom(special).Draw(t, "specialc")
					cand := append(append([]Item{}, e.Items...), Item{x, x})
					if pct(40, "specialrange") && x < 0x10FFF0 && !(x >= 0xD700 && x <= 0xDFFF) {
						cand[len(cand)-1] = Item{x, x + 2}
					}
					if ClassSafe(cand) {
						e.Items = cand
						feat["special-rune-in-class"] = true
					}
				}
				if pct(4, "inverted?") {
					// a range written backwards is accepted by the front end and matches nothing
					e.Items = append(e.Items, Item{Lo: 'z', Hi: 'q'})
					feat["inverted-range"] = true
				}
			}
		})
	}
	for _, r := range g.Rules {
		r.Body.Walk(func(e *Expr) {
			switch e.K {
			case KAct:
				s := rapid.SampledFrom(ActionSnippets).Draw(t, "act")
				e.Code = s.Code
				if s.Code == "" {
					e.Code = " "
				}
				feat["action:"+s.Feature] = true
			case KPred:
				s := rapid.SampledFrom(PredSnippets).Draw(t, "pred")
				if o.NoLineCommentInPredicate && s.Feature == "line-comment-in-predicate" {
					feat["excluded:line-comment-in-predicate"] = true
					s = PredSnippets[0]
				}
				e.Code = s.Code
				feat["predicate:"+s.Feature] = true
			case KState:
				s := rapid.SampledFrom(StateSnippets).Draw(t, "state")
				e.Code = s.Code
				feat["state:"+s.Feature] = true
			}
		})
	}
	fields := "\n N int\n S string\n"
	if pct(60, "imports?") {
		n := rapid.IntRange(1, 4).Draw(t, "nimports")
		used := map[string]bool{}
		for i := 0; i < n; i++ {
			im := rapid.SampledFrom(UserImports).Draw(t, "import")
			if used[im.Path] {
				continue
			}
			used[im.Path] = true
			alias := ""
			qual := im.Name
			if pct(35, "alias?") {
				alias = rapid.SampledFrom([]string{"m", "zz", "a1", "x_y"}).Draw(t, "alias") + fmt.Sprint(i)
				qual = alias
				feat["import:aliased"] = true
			}
			if im.Runtime {
				feat["import:duplicates-runtime-import"] = true
			}
			if len(im.Path) > len(im.Name) {
				feat["import:sub-package"] = true
			}
			g.Imports = append(g.Imports, Import{Alias: alias, Path: im.Path})
			if im.FieldType != "" {
				fields += fmt.Sprintf(" F%d %s\n", i, fmt.Sprintf(im.FieldType, qual))
			} else {
				fields += fmt.Sprintf(" F%d func(float64) float64\n", i)
				// initialised nowhere; reference the package in a field tag-free way
				fields += fmt.Sprintf(" G%d [int(%s.MaxInt8)]byte\n", i, qual)
			}
		}
		if len(g.Imports) >= 2 {
			feat["import:several"] = true
		}
	}
	g.Fields = fields
	if pct(40, "header?") {
		n := rapid.IntRange(1, 3).Draw(t, "nheader")
		for i := 0; i < n; i++ {
			g.Header = append(g.Header, rapid.SampledFrom([]string{" a header comment", "", " héllo 世界", " with \"quotes\" and \\ backslash", "\ttabbed", " */ not a terminator here"}).Draw(t, "hdr"))
		}
		feat["header-comments"] = true
	}
	if o.MaxExtraRules > 0 && pct(12, "big?") {
		// the generated file numbers rules, actions and the capture pseudo-rule together;
		// aim the total at the boundaries of the rule-number type
		consts := len(g.Rules) + g.Count(KAct)
		if g.Count(KCap) > 0 {
			consts++
		}
		target := rapid.SampledFrom([]int{0, 30, 120, 253, 254, 255, 256, 257, 258, 300, o.MaxExtraRules}).Draw(t, "target")
		if target > o.MaxExtraRules {
			target = o.MaxExtraRules
		}
		if k := target - consts; k > 0 {
			AddChain(g, k)
			feat[fmt.Sprintf("rules:%d+", (target/100)*100)] = true
			if target >= 253 && target <= 258 {
				feat[fmt.Sprintf("rule-constants:exactly-%d", target)] = true
			}
		}
	}
	g.Number()
	return feat
}

// AddChain appends k extra rules X0..X(k-1), all reachable: the first rule gets "X0?" and
// Xi <- 'x' X(i+1)? (one in forty is a choice so that -switch has work to do; its analysis walks all code points per alternative and is slow;
// one in forty references its successor twice, which bounds how deep -inline can nest the chain).
func AddChain(g *Grammar, k int) {
	if k <= 0 {
		return
	}
	base := len(g.Rules)
	g.Rules[0].Body = &Expr{K: KSeq, Kids: []*Expr{g.Rules[0].Body, Un(KOpt, Ref(base))}}
	for i := 0; i < k; i++ {
		var body *Expr
		next := base + i + 1
		switch {
		case i == k-1:
			body = Lit("x")
		case i%40 == 7:
			body = &Expr{K: KAlt, Kids: []*Expr{Seq(Lit("x"), Un(KOpt, Ref(next))), Lit("y"), Lit("z")}}
		case i%40 == 27:
			// referenced twice: -inline expands only rules used once, and a chain of tens of
			// thousands of them would nest deeper than go/parser accepts (100 000 levels)
			body = Seq(Lit("x"), Un(KOpt, Ref(next)), Un(KOpt, Ref(next)))
		default:
			body = Seq(Lit("x"), Un(KOpt, Ref(next)))
		}
		g.Rules = append(g.Rules, &Rule{Name: fmt.Sprintf("X%d", i), Body: body})
	}
}

// InsertRule puts rule r at index idx (>= 1) and renumbers the references.
func InsertRule(g *Grammar, idx int, r *Rule) {
	shift := func(e *Expr) {
		if e.K == KRef && e.Name == "" && e.Rule >= idx {
			e.Rule++
		}
	}
	for _, x := range g.Rules {
		x.Body.Walk(shift)
	}
	r.Body.Walk(shift)
	g.Rules = append(g.Rules, nil)
	copy(g.Rules[idx+1:], g.Rules[idx:])
	g.Rules[idx] = r
}

// AddWarned makes a well-formed grammar earn warnings without -strict: rules nobody uses
// (anywhere between the others, alone, as a cycle, or recursive) and references to rules
// nobody defines. The generator still has to write a valid parser. It returns what it added.
func AddWarned(t *rapid.T, g *Grammar) []string {
	var kinds []string
	term := func() *Expr { return &Expr{K: KLit, Runes: []rune{rapid.SampledFrom(baseAlpha).Draw(t, "wt")}} }
	n := rapid.IntRange(1, 3).Draw(t, "nwarned")
	for k := 0; k < n; k++ {
		idx := rapid.IntRange(1, len(g.Rules)).Draw(t, "widx")
		any := func() *Expr { return Ref(rapid.IntRange(0, len(g.Rules)-1).Draw(t, "wref")) }
		kind := rapid.SampledFrom([]string{"unused", "unused", "unused-cycle", "unused-recursive", "undefined", "undefined-in-unused", "unused-left-recursive"}).Draw(t, "wkind")
		switch kind {
		case "unused":
			var body *Expr
			switch rapid.IntRange(0, 3).Draw(t, "wbody") {
			case 0:
				body = term()
			case 1:
				body = Seq(term(), Un(KOpt, any()))
			case 2:
				body = &Expr{K: KAlt, Kids: []*Expr{Seq(term(), Un(KCap, term()), &Expr{K: KAct}), Seq(Un(KNot, term()), any()), Un(KStar, term())}}
			default:
				body = Seq(Un(KPlus, &Expr{K: KAlt, Kids: []*Expr{term(), Seq(term(), term())}}), &Expr{K: KAct})
			}
			InsertRule(g, idx, &Rule{Name: fmt.Sprintf("Unused%dx%d", len(g.Rules), k), Body: body})
		case "unused-cycle":
			a, b := fmt.Sprintf("UnusedA%dx%d", len(g.Rules), k), fmt.Sprintf("UnusedB%dx%d", len(g.Rules), k)
			InsertRule(g, idx, &Rule{Name: a, Body: Seq(term(), &Expr{K: KRef, Name: b})})
			idx2 := rapid.IntRange(1, len(g.Rules)).Draw(t, "widx2")
			InsertRule(g, idx2, &Rule{Name: b, Body: &Expr{K: KAlt, Kids: []*Expr{Seq(term(), &Expr{K: KRef, Name: a}), term()}}})
		case "unused-recursive":
			name := fmt.Sprintf("UnusedR%dx%d", len(g.Rules), k)
			InsertRule(g, idx, &Rule{Name: name, Body: Seq(term(), Un(KOpt, &Expr{K: KRef, Name: name}))})
		case "unused-left-recursive":
			// two diagnostics for one rule, and the left-recursion pass has something to report
			name := fmt.Sprintf("UnusedL%dx%d", len(g.Rules), k)
			InsertRule(g, idx, &Rule{Name: name, Body: &Expr{K: KAlt, Kids: []*Expr{Seq(&Expr{K: KRef, Name: name}, term()), term()}}})
		case "undefined":
			r := g.Rules[rapid.IntRange(0, len(g.Rules)-1).Draw(t, "wur")]
			r.Body = Seq(r.Body, Un(KOpt, &Expr{K: KRef, Name: fmt.Sprintf("Undefined%dx%d", len(g.Rules), k)}))
		default:
			InsertRule(g, idx, &Rule{Name: fmt.Sprintf("Unused%dx%d", len(g.Rules), k), Body: Seq(term(), &Expr{K: KRef, Name: fmt.Sprintf("Undefined%dx%d", len(g.Rules), k)})})
		}
		kinds = append(kinds, kind)
	}
	return kinds
}

// PadRules inserts a chain of k reachable filler rules  Pi <- 'p' P(i+1)?  at index at (>= 1)
// and appends  P0?  to the first rule: the rules behind the chain get rule numbers that are
// larger by k, which is how a small grammar gets rule numbers on both sides of 255 / 256.
func PadRules(g *Grammar, at, k int) {
	if k <= 0 || at < 1 || at > len(g.Rules) {
		return
	}
	for i := k - 1; i >= 0; i-- {
		var body *Expr
		if i == k-1 {
			body = Lit("p")
		} else {
			// P(i+1) sits at index at right now; InsertRule moves it (and this reference) up by one
			body = Seq(Lit("p"), Un(KOpt, Ref(at)))
		}
		InsertRule(g, at, &Rule{Name: fmt.Sprintf("P%d", i), Body: body})
	}
	g.Rules[0].Body = Seq(g.Rules[0].Body, Un(KOpt, Ref(at)))
}
