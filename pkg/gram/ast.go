// Package gram is the verification side's own representation of a .peg grammar: AST,
// well-formedness analysis, printer with spelling variants, generators and input sampler.
// It shares no code with pointlander/peg.
package gram

import (
	"fmt"
	"strings"
	"unicode"
)

type Kind int

const (
	KSeq Kind = iota
	KAlt
	KOpt
	KStar
	KPlus
	KAnd
	KNot
	KCap
	KAct
	KPred
	KState
	KLit
	KClass
	KDot
	KRef
	KEmpty // the empty expression: "()" or an empty rule body
)

var kindNames = [...]string{"seq", "alt", "opt", "star", "plus", "and", "not", "cap", "act", "pred", "state", "lit", "class", "dot", "ref", "empty"}

func (k Kind) String() string { return kindNames[k] }

// Item is one member of a character class: a single rune (Lo == Hi) or a range.
type Item struct {
	Lo, Hi rune
}

// Expr is a parsing expression.
type Expr struct {
	K         Kind    `json:"k"`
	Kids      []*Expr `json:"kids,omitempty"`
	EmptyLast bool    `json:"emptyLast,omitempty"` // Alt: trailing empty alternative "a / b /"
	Runes     []rune  `json:"runes,omitempty"`     // Lit
	CI        bool    `json:"ci,omitempty"`        // Lit, Class: case-insensitive spelling
	Items     []Item  `json:"items,omitempty"`     // Class
	Neg       bool    `json:"neg,omitempty"`       // Class: [^...]
	Rule      int     `json:"rule,omitempty"`      // Ref: index into Grammar.Rules
	Name      string  `json:"name,omitempty"`      // Ref to a name that may be undefined (C15); empty => Rules[Rule].Name
	Pred      int     `json:"pred,omitempty"`      // Pred: index into Predicates
	Wrap      bool    `json:"wrap,omitempty"`      // Act: probe wrapped in nested braces
	Code      string  `json:"code,omitempty"`      // Act/Pred/State: explicit code (C08/C10 texts); empty => probe
	ActID     int     `json:"-"`                   // Act: textual index, set by Number
}

type Rule struct {
	Name string `json:"name"`
	Body *Expr  `json:"body"`
}

type Import struct {
	Alias string `json:"alias,omitempty"`
	Path  string `json:"path"`
}

type Grammar struct {
	Package string   `json:"package"`
	Struct  string   `json:"struct"`
	Fields  string   `json:"fields,omitempty"`
	Imports []Import `json:"imports,omitempty"`
	Header  []string `json:"header,omitempty"` // header comment lines (without marker)
	Rules   []*Rule  `json:"rules"`
}

// Predicates is the table of semantic predicates with a known pure meaning.
var Predicates = []struct {
	Code string
	Eval func(runes []rune, pos int) bool
}{
	{"true", func(r []rune, p int) bool { return true }},
	{"false", func(r []rune, p int) bool { return false }},
	{"position%2 == 0", func(r []rune, p int) bool { return p%2 == 0 }},
	{"buffer[position] == 'a'", func(r []rune, p int) bool { return p < len(r) && r[p] == 'a' }},
}

func Seq(kids ...*Expr) *Expr  { return &Expr{K: KSeq, Kids: kids} }
func Alt(kids ...*Expr) *Expr  { return &Expr{K: KAlt, Kids: kids} }
func Un(k Kind, e *Expr) *Expr { return &Expr{K: k, Kids: []*Expr{e}} }
func Lit(s string) *Expr       { return &Expr{K: KLit, Runes: []rune(s)} }
func Ref(i int) *Expr          { return &Expr{K: KRef, Rule: i} }
func Dot() *Expr               { return &Expr{K: KDot} }
func Act() *Expr               { return &Expr{K: KAct} }
func Class(neg bool, items ...Item) *Expr {
	return &Expr{K: KClass, Items: items, Neg: neg}
}

// Walk visits e and its descendants in textual (pre-)order.
func (e *Expr) Walk(f func(*Expr)) {
	if e == nil {
		return
	}
	f(e)
	for _, k := range e.Kids {
		k.Walk(f)
	}
}

// Clone makes a deep copy.
func (e *Expr) Clone() *Expr {
	if e == nil {
		return nil
	}
	c := *e
	c.Kids = make([]*Expr, len(e.Kids))
	for i, k := range e.Kids {
		c.Kids[i] = k.Clone()
	}
	c.Runes = append([]rune(nil), e.Runes...)
	c.Items = append([]Item(nil), e.Items...)
	return &c
}

func (g *Grammar) Clone() *Grammar {
	c := *g
	c.Rules = make([]*Rule, len(g.Rules))
	for i, r := range g.Rules {
		c.Rules[i] = &Rule{Name: r.Name, Body: r.Body.Clone()}
	}
	c.Imports = append([]Import(nil), g.Imports...)
	c.Header = append([]string(nil), g.Header...)
	return &c
}

// Number assigns ActID in textual order over the whole grammar (peg names action tokens
// Action0, Action1, ... in that order) and returns the number of actions.
func (g *Grammar) Number() int {
	n := 0
	for _, r := range g.Rules {
		r.Body.Walk(func(e *Expr) {
			if e.K == KAct {
				e.ActID = n
				n++
			}
		})
	}
	return n
}

// Count returns how many nodes of kind k the grammar has.
func (g *Grammar) Count(k Kind) int {
	n := 0
	for _, r := range g.Rules {
		r.Body.Walk(func(e *Expr) {
			if e.K == k {
				n++
			}
		})
	}
	return n
}

func (g *Grammar) Size() int {
	n := 0
	for _, r := range g.Rules {
		r.Body.Walk(func(e *Expr) { n++ })
	}
	return n
}

// RefName is the rule name a reference denotes.
func (g *Grammar) RefName(e *Expr) string {
	if e.Name != "" {
		return e.Name
	}
	return g.Rules[e.Rule].Name
}

// ---------------------------------------------------------------------------------
// terminal semantics (documented meaning)

func isASCIILetter(r rune) bool { return (r >= 'a' && r <= 'z') || (r >= 'A' && r <= 'Z') }

// MatchLitRune reports whether input rune c matches literal rune l.
func MatchLitRune(l, c rune, ci bool) bool {
	if l == c {
		return true
	}
	if ci && isASCIILetter(l) {
		return unicode.ToLower(l) == unicode.ToLower(c) && isASCIILetter(c)
	}
	return false
}

// documentedCIRange: the shape the documentation shows ([[A-Z]]): both bounds letters of one
// case, or neither bound affected by case folding.
func documentedCIRange(it Item) bool {
	caseless := func(r rune) bool { return unicode.ToLower(r) == r && unicode.ToUpper(r) == r }
	if caseless(it.Lo) && caseless(it.Hi) {
		return true
	}
	return (unicode.IsLower(it.Lo) && unicode.IsLower(it.Hi)) || (unicode.IsUpper(it.Lo) && unicode.IsUpper(it.Hi))
}

// ClassMatch reports whether input rune c is matched by the class members (before negation).
// For a case-insensitive range whose bounds mix cased and caseless characters (e.g. [[a-~]])
// the documentation does not say which of two readings is meant - "c or its case variants lie
// in the range" or "c lies in the range with lower-cased bounds or in the range with
// upper-cased bounds"; where the two readings disagree the answer is unspecified.
func ClassMatch(items []Item, c rune, ci bool) (match, unspecified bool) {
	for _, it := range items {
		if it.Lo <= c && c <= it.Hi {
			if ci && it.Lo != it.Hi && !documentedCIRange(it) {
				// a case-insensitive range whose bounds are of different case: whether the
				// range as written is tested at all is not documented (see below)
				continue
			}
			return true, false
		}
	}
	if !ci {
		return false, false
	}
	for _, it := range items {
		if it.Lo == it.Hi {
			if MatchLitRune(it.Lo, c, true) {
				return true, false
			}
			continue
		}
		ll, lh := unicode.ToLower(it.Lo), unicode.ToLower(it.Hi)
		ul, uh := unicode.ToUpper(it.Lo), unicode.ToUpper(it.Hi)
		folded := (ll <= c && c <= lh) || (ul <= c && c <= uh)
		if documentedCIRange(it) {
			if folded {
				return true, false
			}
			continue
		}
		in := func(x rune) bool { return it.Lo <= x && x <= it.Hi }
		variants := in(c) || in(unicode.ToLower(c)) || in(unicode.ToUpper(c))
		if folded != variants {
			unspecified = true
			continue
		}
		if folded {
			return true, false
		}
	}
	return false, unspecified
}

// MatchItems is ClassMatch without the unspecified flag (classes of documented shape).
func MatchItems(items []Item, c rune, ci bool) bool {
	m, _ := ClassMatch(items, c, ci)
	return m
}

// ---------------------------------------------------------------------------------
// debugging representation (canonical, one line per rule)

func (g *Grammar) String() string {
	var sb strings.Builder
	for _, r := range g.Rules {
		fmt.Fprintf(&sb, "%s <- %s\n", r.Name, g.exprString(r.Body, 0))
	}
	return sb.String()
}

func (g *Grammar) exprString(e *Expr, prec int) string {
	p := Printer{G: g, ActionText: func(e *Expr) string { return fmt.Sprintf(" a%d ", e.ActID) }}
	return p.expr(e, prec)
}
