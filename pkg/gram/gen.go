package gram

import (
	"fmt"

	"pgregory.net/rapid"
)

// Profile parameterises the generator of well-formed grammars.
type Profile struct {
	Name               string
	MinRules, MaxRules int
	Depth              int
	AltMin, AltMax     int
	SeqMax             int
	// weights of expression kinds at inner nodes
	WTerm, WSeq, WAlt, WOpt, WStar, WPlus, WAnd, WNot, WCap, WRef, WAct, WPred, WState int
	Hostile                                                                            int // percent of terminals drawn from the hostile alphabet
	Newline                                                                            int // percent of terminals that are a newline
	SharedPrefix                                                                       int // percent of choices whose alternatives share a prefix
	MaxRune                                                                            bool
	CaptureOnly                                                                        int  // percent of backtrack points (choices, lookaheads, optional/repeated elements) whose operand is built from terminals and captures only
	RecSplice                                                                          int  // percent of grammars that get a nested-group idiom (recursive alternative sharing its first character with a sibling)
	WUntil                                                                             int  // weight of the "(!T .)* T" idiom with a terminator T that leaves tokens
	TwoCapSplice                                                                       int  // percent of grammars whose first rule first tries two captures in one sequence, the second failing, then an alternative that begins with an action
	LookSplice                                                                         int  // percent of grammars whose first rule first tries the lookahead variant of the memo splice (a rule remembered outside a lookahead, hit inside one)
	ItemSplice                                                                         int  // percent of grammars whose first rule tries the bracketed-item idiom first (single-use rules right behind a dispatch character)
	ListSplice                                                                         int  // percent of grammars whose first rule becomes a right-recursive list whose items end in the grammar's last action
	MemoSplice                                                                         int  // percent of grammars with a re-enter-after-overwrite choice (memo splice)
	RefHeavy                                                                           bool // rule bodies are sequences of references and captures
	Dispatch                                                                           int  // percent of choices built as first-character dispatch (what -switch rewrites)
	StringSplice                                                                       int  // percent of grammars with a quoted-text idiom  q <(!q .)*> q {action}: a capture over arbitrary characters
	KeywordSplice                                                                      int  // percent of grammars with the keyword / identifier idiom  !Keyword Letter+  (Keyword used once or twice)
	ExtremeSplice                                                                      int  // percent of grammars with a rule that can never succeed or never fail, called where that decides the parse
}

var Profiles = map[string]Profile{
	"plain":      {LookSplice: 8, ItemSplice: 10, Name: "plain", StringSplice: 15, KeywordSplice: 15, ExtremeSplice: 15, WUntil: 3, ListSplice: 20, MinRules: 2, MaxRules: 6, Depth: 3, AltMin: 2, AltMax: 4, SeqMax: 4, WTerm: 22, WSeq: 20, WAlt: 18, WOpt: 6, WStar: 6, WPlus: 6, WAnd: 4, WNot: 4, WCap: 6, WRef: 8, WAct: 6, WPred: 2, WState: 1, Hostile: 8, Newline: 2},
	"switchy":    {ItemSplice: 25, Name: "switchy", StringSplice: 10, KeywordSplice: 25, ExtremeSplice: 12, Dispatch: 60, RecSplice: 40, MinRules: 2, MaxRules: 6, Depth: 3, AltMin: 3, AltMax: 6, SeqMax: 3, WTerm: 22, WSeq: 16, WAlt: 30, WOpt: 6, WStar: 5, WPlus: 4, WAnd: 5, WNot: 5, WCap: 4, WRef: 10, WAct: 4, WPred: 1, WState: 0, Hostile: 6, Newline: 1},
	"backtracky": {LookSplice: 20, TwoCapSplice: 10, ItemSplice: 6, Name: "backtracky", StringSplice: 10, KeywordSplice: 15, ExtremeSplice: 10, WUntil: 8, ListSplice: 20, MemoSplice: 50, CaptureOnly: 35, MinRules: 2, MaxRules: 5, Depth: 3, AltMin: 2, AltMax: 4, SeqMax: 4, WTerm: 18, WSeq: 22, WAlt: 22, WOpt: 5, WStar: 5, WPlus: 4, WAnd: 6, WNot: 4, WCap: 10, WRef: 12, WAct: 10, WPred: 1, WState: 0, Hostile: 3, Newline: 1, SharedPrefix: 60},
	"deep":       {LookSplice: 8, ItemSplice: 10, Name: "deep", StringSplice: 10, KeywordSplice: 10, ExtremeSplice: 10, WUntil: 4, CaptureOnly: 10, MinRules: 3, MaxRules: 7, Depth: 4, AltMin: 2, AltMax: 3, SeqMax: 3, WTerm: 14, WSeq: 22, WAlt: 12, WOpt: 6, WStar: 6, WPlus: 6, WAnd: 2, WNot: 2, WCap: 14, WRef: 18, WAct: 8, WPred: 1, WState: 0, Hostile: 10, Newline: 2},
	"erry":       {Name: "erry", StringSplice: 10, KeywordSplice: 10, ExtremeSplice: 8, WUntil: 4, RefHeavy: true, MinRules: 4, MaxRules: 7, Depth: 3, AltMin: 2, AltMax: 3, SeqMax: 5, WTerm: 14, WSeq: 30, WAlt: 10, WOpt: 6, WStar: 5, WPlus: 6, WAnd: 2, WNot: 2, WCap: 14, WRef: 30, WAct: 2, WPred: 1, WState: 0, Hostile: 15, Newline: 20},
	"actiony":    {LookSplice: 8, TwoCapSplice: 25, ItemSplice: 8, Name: "actiony", StringSplice: 20, KeywordSplice: 10, ExtremeSplice: 12, WUntil: 8, ListSplice: 40, CaptureOnly: 10, MinRules: 2, MaxRules: 5, Depth: 3, AltMin: 2, AltMax: 3, SeqMax: 5, WTerm: 14, WSeq: 26, WAlt: 14, WOpt: 8, WStar: 8, WPlus: 8, WAnd: 5, WNot: 3, WCap: 16, WRef: 12, WAct: 24, WPred: 1, WState: 0, Hostile: 4, Newline: 2, SharedPrefix: 40},
	"listy":      {Name: "listy", StringSplice: 20, KeywordSplice: 10, ExtremeSplice: 12, WUntil: 8, ListSplice: 100, MemoSplice: 40, CaptureOnly: 10, MinRules: 2, MaxRules: 5, Depth: 3, AltMin: 2, AltMax: 3, SeqMax: 5, WTerm: 14, WSeq: 26, WAlt: 14, WOpt: 8, WStar: 8, WPlus: 8, WAnd: 5, WNot: 3, WCap: 16, WRef: 12, WAct: 24, WPred: 1, WState: 0, Hostile: 4, Newline: 2, SharedPrefix: 40},
	"liney":      {TwoCapSplice: 8, Name: "liney", StringSplice: 20, KeywordSplice: 10, ExtremeSplice: 10, WUntil: 6, MinRules: 2, MaxRules: 5, Depth: 3, AltMin: 2, AltMax: 4, SeqMax: 5, WTerm: 26, WSeq: 24, WAlt: 14, WOpt: 6, WStar: 6, WPlus: 6, WAnd: 3, WNot: 3, WCap: 6, WRef: 8, WAct: 3, WPred: 1, WState: 0, Hostile: 25, Newline: 25},
}

// ProfileMix is the fixed mix of a lab batch (cycled through by grammar index).
var ProfileMix = []string{"plain", "switchy", "backtracky", "switchy", "deep", "liney", "backtracky", "plain"}

var baseAlpha = []rune{'a', 'b', 'c', 'd'}
var hostileAlpha = []rune{'é', '世', '😀', '\'', '"', '\\', ']', '-', '^', '[', 0, 0xFFFD, 'A', 'B', '0', '{', '}', ' ', '\t', 0x7f, 0x80, 0xff}

type genState struct {
	t        *rapid.T
	p        Profile
	n        int
	ruleMust []bool // rule can only succeed by consuming (known for rules generated so far)
	known    []bool
	rules    []*Rule
	noNames  bool // inside a capture-only backtrack point: no actions, no references
	twoCap   bool // memoSplice is asked for its two-capture variant
	lookMemo bool // memoSplice is asked for its lookahead variant
}

func (s *genState) pct(p int, label string) bool {
	if p <= 0 {
		return false
	}
	return rapid.IntRange(0, 99).Draw(s.t, label) < p
}

func (s *genState) rune1(label string) rune {
	if s.pct(s.p.Newline, label+"nl") {
		return '\n'
	}
	if s.pct(s.p.Hostile, label+"h") {
		if s.p.MaxRune && s.pct(10, label+"max") {
			return 0x10FFFF
		}
		return rapid.SampledFrom(hostileAlpha).Draw(s.t, label+"hr")
	}
	return rapid.SampledFrom(baseAlpha).Draw(s.t, label)
}

func (s *genState) term() *Expr {
	t := s.t
	switch k := rapid.IntRange(0, 99).Draw(t, "term"); {
	case k < 50:
		n := 1
		if s.pct(25, "multi") {
			n = rapid.IntRange(2, 3).Draw(t, "litlen")
		}
		e := &Expr{K: KLit}
		for i := 0; i < n; i++ {
			e.Runes = append(e.Runes, s.rune1("lr"))
		}
		if n >= 2 && s.pct(6+s.p.Hostile, "pair") {
			// adjacent characters that mean something to whatever carries the literal into the
			// generated file (a comment, a format, a template, a quoted string), and literals
			// whose last character takes more than one byte
			e.Runes = []rune(rapid.SampledFrom([]string{"*/", "/*", "//", "%d", "%%", "{{", "}}", "\\n", "`a", "a\"", "caf\u00e9", "a\u4e16", "\u00e9\u00e9", "x\U0001F600"}).Draw(t, "pairv"))
		}
		if s.pct(12, "ci") {
			e.CI = true
			if s.pct(60, "ciletter") {
				// any letter of the alphabet, in either case: case folding has special cases
				// (k and the Kelvin sign, s and the long s, i and the dotless i)
				l := rune('a' + rapid.IntRange(0, 25).Draw(t, "cil"))
				if rapid.Bool().Draw(t, "ciup") {
					l -= 32
				}
				if s.pct(40, "ciks") {
					l = rapid.SampledFrom([]rune{'k', 's', 'i', 'K', 'S', 'I'}).Draw(t, "ciksl")
				}
				e.Runes[rapid.IntRange(0, len(e.Runes)-1).Draw(t, "cipos")] = l
			}
		}
		return e
	case k < 64:
		if s.p.MaxRune && s.pct(12, "openrange") {
			// "everything from here up", as in the character classes of JSON or XML grammars
			lo := rapid.SampledFrom([]rune{'c', 0x80, 0x100, 0xE000, 0x10000}).Draw(t, "openlo")
			return &Expr{K: KClass, Items: []Item{{lo, 0x10FFFF}}}
		}
		lo := rapid.SampledFrom([]rune{'a', 'b', 'c'}).Draw(t, "rlo")
		hi := lo + rune(rapid.IntRange(0, 2).Draw(t, "rw"))
		if hi > 'd' {
			hi = 'd'
		}
		e := &Expr{K: KClass, Items: []Item{{lo, hi}}}
		if s.pct(15, "ci") {
			e.CI = true
		}
		return e
	case k < 86:
		n := rapid.IntRange(1, 3).Draw(t, "nitems")
		e := &Expr{K: KClass}
		for i := 0; i < n; i++ {
			if s.p.MaxRune && s.pct(25, "edgerange") {
				// ranges that touch the ends of the code space
				if s.pct(30, "edgegap") {
					// a range across the surrogate gap: D800-DFFF are no characters, whoever
					// enumerates the members has to step over them and land on E000
					e.Items = append(e.Items, Item{0xD7FF - rune(rapid.IntRange(0, 1).Draw(t, "eg0")), 0xE000 + rune(rapid.IntRange(0, 1).Draw(t, "eg1"))})
				} else if rapid.Bool().Draw(t, "edgehi") {
					e.Items = append(e.Items, Item{0x10FFFF - rune(rapid.IntRange(0, 3).Draw(t, "ew")), 0x10FFFF})
				} else {
					e.Items = append(e.Items, Item{0, rune(rapid.IntRange(0, 3).Draw(t, "ew0"))})
				}
			} else if s.pct(25, "range") {
				lo := rapid.SampledFrom([]rune{'a', 'b', 'c', 'A', '0'}).Draw(t, "clo")
				e.Items = append(e.Items, Item{lo, lo + rune(rapid.IntRange(1, 3).Draw(t, "cw"))})
			} else {
				r := s.rune1("cr")
				e.Items = append(e.Items, Item{r, r})
			}
		}
		e.Neg = s.pct(30, "neg")
		if s.pct(10, "ci") {
			e.CI = true
			// keep the documented shape: ranges with letter bounds of one case only
			if s.pct(50, "ciclsletter") {
				l := rapid.SampledFrom([]rune{'k', 's', 'i', 'K', 'S', 'I', 'z', 'Q'}).Draw(t, "ciclsl")
				e.Items = append(e.Items, Item{l, l})
			}
		}
		if !ClassSafe(e.Items) {
			e.Items = e.Items[:1]
		}
		return e
	default:
		return &Expr{K: KDot}
	}
}

// mustConsume is the conservative judgement used during generation: true only if every
// successful match of e consumes at least one rune.
func (s *genState) mustConsume(e *Expr) bool {
	switch e.K {
	case KLit:
		return len(e.Runes) > 0
	case KClass, KDot:
		return true
	case KSeq:
		for _, k := range e.Kids {
			if s.mustConsume(k) {
				return true
			}
		}
		return false
	case KAlt:
		if e.EmptyLast {
			return false
		}
		for _, k := range e.Kids {
			if !s.mustConsume(k) {
				return false
			}
		}
		return true
	case KPlus, KCap:
		return s.mustConsume(e.Kids[0])
	case KRef:
		return s.known[e.Rule] && s.ruleMust[e.Rule]
	}
	return false
}

func (s *genState) filler() *Expr {
	if s.noNames {
		return &Expr{K: KPred, Pred: 0}
	}
	// a non-consuming element that may be sprinkled into sequences
	switch k := rapid.IntRange(0, 109).Draw(s.t, "filler"); {
	case k >= 100:
		return &Expr{K: KEmpty} // "()"
	case k < 60 || s.p.WPred+s.p.WState == 0:
		return &Expr{K: KAct, Wrap: s.pct(15, "wrap")}
	case k < 85 || s.p.WState == 0:
		return &Expr{K: KPred, Pred: rapid.IntRange(0, len(Predicates)-1).Draw(s.t, "pred")}
	default:
		return &Expr{K: KState}
	}
}

// expr generates an expression for rule i. must: every success consumes. guarded: something
// has certainly been consumed before this position within the rule.
func (s *genState) expr(i, depth int, must, guarded bool) *Expr {
	t := s.t
	p := s.p
	if depth <= 0 {
		if !must && s.pct(15, "leafact") {
			return s.filler()
		}
		return s.term()
	}
	type opt struct {
		w int
		k string
	}
	opts := []opt{{p.WTerm, "term"}, {p.WSeq, "seq"}, {p.WAlt, "alt"}, {p.WPlus, "plus"}, {p.WCap, "cap"}, {p.WRef, "ref"}, {p.WUntil, "until"}}
	if !must {
		opts = append(opts, opt{p.WOpt, "opt"}, opt{p.WStar, "star"}, opt{p.WAnd, "and"}, opt{p.WNot, "not"}, opt{p.WAct, "act"}, opt{p.WPred, "pred"}, opt{p.WState, "state"})
	}
	total := 0
	for _, o := range opts {
		total += o.w
	}
	x := rapid.IntRange(0, total-1).Draw(t, "kind")
	kind := "term"
	for _, o := range opts {
		if x < o.w {
			kind = o.k
			break
		}
		x -= o.w
	}
	switch kind {
	case "alt", "opt", "star", "plus", "and", "not":
		if s.pct(p.CaptureOnly, "caponly") {
			// the whole backtrack point is built from terminals and captures only: the only
			// tokens it can leave behind are capture tokens
			saved := s.p
			s.p.WRef, s.p.WAct, s.p.WPred, s.p.WState, s.p.CaptureOnly, s.p.WUntil = 0, 0, 0, 0, 0, 0
			s.p.WCap += 25
			savedNo := s.noNames
			s.noNames = true
			defer func() { s.p, s.noNames = saved, savedNo }()
		}
	}
	switch kind {
	case "until":
		// "everything up to a terminator": (!T x)* T, where matching T leaves tokens behind
		// (a capture, an action, a rule) that the failing !T has to take back
		var term *Expr
		switch rapid.IntRange(0, 3).Draw(t, "untilT") {
		case 0:
			term = Un(KCap, s.term())
		case 1:
			term = Seq(Un(KCap, s.term()), &Expr{K: KAct})
		default:
			j := -1
			if guarded {
				j = rapid.IntRange(0, s.n-1).Draw(t, "untilrefg")
			} else if i+1 < s.n {
				j = rapid.IntRange(i+1, s.n-1).Draw(t, "untilrefu")
			}
			if j >= 0 && s.known[j] && s.ruleMust[j] {
				term = Ref(j)
			} else {
				term = Un(KCap, s.term())
			}
		}
		var any *Expr = &Expr{K: KDot}
		if s.pct(40, "untilany") {
			any = s.term()
		}
		loopKind := KStar
		if must {
			loopKind = KPlus
		} else if s.pct(20, "untilopt") {
			loopKind = KOpt
		}
		loop := Un(loopKind, Seq(Un(KNot, term.Clone()), any))
		if s.pct(30, "untilcap") {
			loop = Un(KCap, loop)
		}
		e := Seq(loop)
		if s.pct(30, "untilact") {
			e.Kids = append(e.Kids, &Expr{K: KAct})
		}
		if s.pct(75, "untilterm") {
			e.Kids = append(e.Kids, term)
		}
		return e
	case "term":
		return s.term()
	case "seq":
		n := rapid.IntRange(2, p.SeqMax).Draw(t, "seqn")
		mc := -1
		if must {
			mc = rapid.IntRange(0, n-1).Draw(t, "mc")
		}
		e := &Expr{K: KSeq}
		g := guarded
		for j := 0; j < n; j++ {
			if s.pct(10, "fill") {
				e.Kids = append(e.Kids, s.filler())
			}
			k := s.expr(i, depth-1, j == mc, g)
			e.Kids = append(e.Kids, k)
			if s.mustConsume(k) {
				g = true
			}
		}
		if s.pct(8, "fillend") {
			e.Kids = append(e.Kids, s.filler())
		}
		return e
	case "alt":
		n := rapid.IntRange(p.AltMin, p.AltMax).Draw(t, "altn")
		e := &Expr{K: KAlt}
		if s.pct(p.Dispatch, "dispatch") {
			return s.dispatch(i, depth, must, guarded)
		}
		if s.noNames && s.pct(50, "capfail") {
			// every alternative captures the same prefix and then needs a different tail:
			// the earlier ones complete their capture and fail afterwards
			prefix := s.term()
			for j := 0; j < n; j++ {
				var head *Expr
				switch rapid.IntRange(0, 2).Draw(t, "capshape") {
				case 0:
					head = Un(KCap, prefix.Clone())
				case 1:
					head = Seq(Un(KCap, prefix.Clone()), Un(KCap, s.term()))
				default:
					head = Un(KCap, Seq(prefix.Clone(), Un(KOpt, Un(KCap, s.term()))))
				}
				e.Kids = append(e.Kids, Seq(head, s.term()))
			}
			return e
		}
		if s.pct(p.SharedPrefix, "shared") {
			// alternatives sharing a prefix (with captures/actions inside the prefix)
			prefix := s.expr(i, depth-1, true, guarded)
			for j := 0; j < n; j++ {
				alt := &Expr{K: KSeq, Kids: []*Expr{prefix.Clone()}}
				if s.pct(40, "preact") {
					alt.Kids = append(alt.Kids, s.filler())
				}
				if j < n-1 || s.pct(70, "lasttail") {
					alt.Kids = append(alt.Kids, s.expr(i, depth-1, false, true))
				}
				e.Kids = append(e.Kids, alt)
			}
			return e
		}
		for j := 0; j < n; j++ {
			if !must && j < n-1 && s.pct(12, "barelook") {
				// a bare lookahead as a non-final alternative: it fails after having read
				// input, and the next alternative must start from the saved position
				k := KNot
				if s.pct(40, "barelookand") {
					k = KAnd
				}
				e.Kids = append(e.Kids, Un(k, s.expr(i, depth-1, true, guarded)))
				continue
			}
			e.Kids = append(e.Kids, s.expr(i, depth-1, must, guarded))
		}
		if !must && s.pct(20, "emptylast") {
			e.EmptyLast = true
		}
		return e
	case "opt", "star", "plus", "and", "not":
		// the operand of a prefix or suffix operator is, as in hand-written grammars
		// (!Keyword, Spacing?, Item*), often just the name of a rule
		unary := map[string]Kind{"opt": KOpt, "star": KStar, "plus": KPlus, "and": KAnd, "not": KNot}[kind]
		must := kind == "opt" || kind == "star" || kind == "plus"
		if !s.noNames && s.pct(30, "bareref") {
			j := -1
			if guarded {
				j = rapid.IntRange(0, s.n-1).Draw(t, "barerefg")
			} else if i+1 < s.n {
				j = rapid.IntRange(i+1, s.n-1).Draw(t, "barerefu")
			}
			if j >= 0 && (!must || (s.known[j] && s.ruleMust[j])) {
				return Un(unary, Ref(j))
			}
		}
		if (kind == "star" || kind == "plus") && s.pct(15, "loopcap") {
			// every iteration leaves a record of its own, right where the loop stands
			// (<x>+ at the head of a rule or capture)
			if tm := s.term(); s.mustConsume(tm) {
				return Un(unary, Un(KCap, tm))
			}
		}
		return Un(unary, s.expr(i, depth-1, must, guarded))
	case "cap":
		if !must && !s.noNames && s.pct(25, "nullcap") {
			// a capture that may match the empty string, after a non-empty one, each followed
			// by an action that reads text
			inner := s.term()
			var nullable *Expr
			if s.pct(50, "nullcapstar") {
				nullable = Un(KStar, inner)
			} else {
				nullable = Un(KOpt, inner)
			}
			return Seq(Un(KCap, s.term()), &Expr{K: KAct}, Un(KCap, nullable), &Expr{K: KAct})
		}
		return Un(KCap, s.expr(i, depth-1, must, guarded))
	case "act", "pred", "state":
		if kind == "pred" {
			return &Expr{K: KPred, Pred: rapid.IntRange(0, len(Predicates)-1).Draw(t, "pred")}
		}
		if kind == "state" {
			return &Expr{K: KState}
		}
		return &Expr{K: KAct, Wrap: s.pct(15, "wrap")}
	case "ref":
		var j int
		if guarded {
			j = rapid.IntRange(0, s.n-1).Draw(t, "refg")
		} else if i+1 < s.n {
			j = rapid.IntRange(i+1, s.n-1).Draw(t, "refu")
		} else {
			return s.term()
		}
		if must && !(s.known[j] && s.ruleMust[j]) {
			// consumption of the referenced rule unknown or not guaranteed
			return &Expr{K: KSeq, Kids: []*Expr{s.term(), Ref(j)}}
		}
		return Ref(j)
	}
	return s.term()
}

// dispatch builds an ordered choice whose alternatives mostly start with distinct
// characters - the shape -switch turns into a switch - where the leading character is
// preceded, in some alternatives, by an element that does not decide it: a lookahead, an
// optional or repeated element, a nested choice, a range or a (possibly inlined) reference.
func (s *genState) dispatch(i, depth int, must, guarded bool) *Expr {
	t := s.t
	leads := []rune{'a', 'b', 'c', 'd', 'e', 'f', '0', '1'}
	n := rapid.IntRange(3, 6).Draw(t, "dn")
	perm := rapid.Permutation(leads).Draw(t, "leads")
	e := &Expr{K: KAlt}
	// elements that precede a leading character mostly use an alphabet of their own, so that
	// the (possibly wrong) first-character sets of the alternatives stay disjoint and the
	// choice really becomes a switch
	pre := []rune{'w', 'x', 'y', 'z', 'w', 'x', 'y', 'z', 'a', '0'}
	small := func(label string) *Expr {
		r := rapid.SampledFrom(pre).Draw(t, label)
		switch rapid.IntRange(0, 3).Draw(t, label+"k") {
		case 0:
			return &Expr{K: KClass, Items: []Item{{r, r + 1}}}
		case 1:
			return &Expr{K: KLit, Runes: []rune{r, 'x'}}
		}
		return &Expr{K: KLit, Runes: []rune{r}}
	}
	gapLead := false
	for j := 0; j < n; j++ {
		lead := &Expr{K: KLit, Runes: []rune{perm[j]}}
		alt := &Expr{K: KSeq}
		switch k := rapid.IntRange(0, 25).Draw(t, "dprefix"); {
		case k >= 24:
			// a lookahead whose operand can match without consuming and is made of some of
			// the characters the alternative itself starts with:  &('a'* !'x') [a-c]
			lead = &Expr{K: KClass, Items: []Item{{perm[j], perm[j] + rune(rapid.IntRange(1, 2).Draw(t, "pow"))}}}
			if k == 24 {
				alt.Kids = append(alt.Kids, Un(KAnd, Seq(Un(KStar, &Expr{K: KLit, Runes: []rune{perm[j]}}), Un(KNot, small("pob")))))
			} else {
				alt.Kids = append(alt.Kids, Un(KAnd, Un(KOpt, &Expr{K: KLit, Runes: []rune{perm[j]}})))
			}
		case k >= 21 && s.p.MaxRune:
			// the leading element is a range across the surrogate gap
			lead = &Expr{K: KClass, Items: []Item{{0xD7FF, 0xE000 + rune(rapid.IntRange(0, 1).Draw(t, "dgap"))}}}
			gapLead = true
		case k == 17:
			// a class that names a member twice ([aa], [a-cb], [ba-c]): the number of members
			// written is not the number of characters it stands for
			w := rune(rapid.IntRange(0, 2).Draw(t, "ovw"))
			in := perm[j] + rune(rapid.IntRange(0, int(w)).Draw(t, "ovin"))
			items := []Item{{perm[j], perm[j] + w}, {in, in}}
			if rapid.Bool().Draw(t, "ovfirst") {
				items[0], items[1] = items[1], items[0]
			}
			lead = &Expr{K: KClass, Items: items}
		case k >= 18 && k <= 20:
			// such a class at the head of a nested choice whose sibling starts with another
			// leading character: ([a-cb] 'x' / 'd' 'y') 'z'
			// (the sibling's character is one no other alternative of the choice starts with,
			// and the class stands for one character, so that the first-character sets of the
			// alternatives stay disjoint and the choice really becomes a switch)
			other := perm[len(perm)-1]
			cls := &Expr{K: KClass, Items: []Item{{perm[j], perm[j]}, {perm[j], perm[j]}}}
			if rapid.Bool().Draw(t, "ov2range") {
				cls = &Expr{K: KClass, Items: []Item{{perm[j], perm[j]}, {perm[j], perm[j]}, {perm[j], perm[j]}}}
			}
			lead = &Expr{K: KAlt, Kids: []*Expr{
				Seq(cls, &Expr{K: KLit, Runes: []rune{'x'}}),
				Seq(&Expr{K: KLit, Runes: []rune{other}}, &Expr{K: KLit, Runes: []rune{'y'}}),
			}}
			if rapid.Bool().Draw(t, "ov2second") {
				lead.Kids = append(lead.Kids, Seq(&Expr{K: KLit, Runes: []rune{perm[len(perm)-2]}}, &Expr{K: KLit, Runes: []rune{'z'}}))
			}
		case k == 0:
			switch rapid.IntRange(0, 3).Draw(t, "panull") {
			case 0:
				// the operand can match without consuming: its first characters say nothing
				// about what may follow the lookahead
				if rapid.Bool().Draw(t, "paown") {
					// ... made of some of the characters the alternative itself starts with:
					// &('a'* !'x') [a-c]
					lead = &Expr{K: KClass, Items: []Item{{perm[j], perm[j] + rune(rapid.IntRange(1, 2).Draw(t, "paw"))}}}
					alt.Kids = append(alt.Kids, Un(KAnd, Seq(Un(KStar, &Expr{K: KLit, Runes: []rune{perm[j]}}), Un(KNot, small("pb")))))
				} else {
					alt.Kids = append(alt.Kids, Un(KAnd, Seq(Un(KStar, small("pa")), Un(KNot, small("pb")))))
				}
			case 1:
				alt.Kids = append(alt.Kids, Un(KAnd, Un(KOpt, small("pa"))))
			default:
				alt.Kids = append(alt.Kids, Un(KAnd, small("pa")))
			}
		case k == 1:
			alt.Kids = append(alt.Kids, Un(KNot, small("pn")))
		case k == 2:
			alt.Kids = append(alt.Kids, Un(KOpt, small("po")))
		case k == 3:
			alt.Kids = append(alt.Kids, Un(KStar, small("ps")))
		case k == 11:
			// a nullable choice in front of the leading character: ('x' / 'y' /) 'a'
			alt.Kids = append(alt.Kids, &Expr{K: KAlt, Kids: []*Expr{small("nn1"), small("nn2")}, EmptyLast: true})
		case k == 12 && (guarded || i+1 < s.n):
			// a reference to a rule that may match empty, in front of the leading character
			var jr int
			if guarded {
				jr = rapid.IntRange(0, s.n-1).Draw(t, "dnrefg")
			} else {
				jr = rapid.IntRange(i+1, s.n-1).Draw(t, "dnrefu")
			}
			if s.known[jr] && !s.ruleMust[jr] {
				alt.Kids = append(alt.Kids, Ref(jr))
			}
		case k == 13:
			alt.Kids = append(alt.Kids, Un(KOpt, &Expr{K: KAlt, Kids: []*Expr{small("no1"), small("no2")}}))
		case k == 16:
			// an optional or repeated element whose characters are among those of the
			// element that follows ("[0-2]? [0-9]"): the case labels of the arm are exactly the
			// characters of the second element, which nevertheless must be tested
			w := rune(rapid.IntRange(0, 3).Draw(t, "subw"))
			lead = &Expr{K: KClass, Items: []Item{{perm[j], perm[j] + w}}}
			if w == 0 {
				lead = &Expr{K: KLit, Runes: []rune{perm[j]}}
			}
			sub := &Expr{K: KClass, Items: []Item{{perm[j], perm[j] + rune(rapid.IntRange(0, int(w)).Draw(t, "subw2"))}}}
			if rapid.Bool().Draw(t, "substar") {
				alt.Kids = append(alt.Kids, Un(KStar, sub))
			} else {
				alt.Kids = append(alt.Kids, Un(KOpt, sub))
			}
		case k == 15:
			// a nested choice mixing consuming and non-consuming alternatives, alone or in
			// front of the leading character
			var nc *Expr
			switch rapid.IntRange(0, 2).Draw(t, "dmixed") {
			case 0:
				nc = &Expr{K: KAlt, Kids: []*Expr{small("m1"), Un(KAnd, small("m2"))}}
			case 1:
				nc = &Expr{K: KAlt, Kids: []*Expr{small("m1"), &Expr{K: KAct}}}
			default:
				nc = &Expr{K: KAlt, Kids: []*Expr{small("m1"), small("m2")}, EmptyLast: true}
			}
			alt.Kids = append(alt.Kids, nc)
			if !must && rapid.Bool().Draw(t, "dmixedalone") {
				e.Kids = append(e.Kids, alt)
				continue
			}
		case k == 14 && guarded:
			// recursion: a reference to any rule (possibly the one being generated, or an
			// ancestor) in front of the leading character; safe because input has been
			// consumed before this choice
			alt.Kids = append(alt.Kids, Ref(rapid.IntRange(0, s.n-1).Draw(t, "drec")))
		case k == 4:
			lead = &Expr{K: KAlt, Kids: []*Expr{small("n1"), small("n2")}}
		case k == 5:
			lead = &Expr{K: KClass, Items: []Item{{perm[j], perm[j] + rune(rapid.IntRange(0, 2).Draw(t, "rw"))}}}
		case k == 6:
			lead = Un(KCap, lead)
		case k == 7:
			alt.Kids = append(alt.Kids, &Expr{K: KAct})
		case k == 8 && !must:
			lead = Un(KOpt, lead)
		case k == 9:
			lead = Un(KPlus, lead)
		case k == 10 && (guarded || i+1 < s.n):
			var jr int
			if guarded {
				jr = rapid.IntRange(0, s.n-1).Draw(t, "drefg")
			} else {
				jr = rapid.IntRange(i+1, s.n-1).Draw(t, "drefu")
			}
			if s.known[jr] && s.ruleMust[jr] {
				lead = Ref(jr)
			}
		}
		alt.Kids = append(alt.Kids, lead)
		if s.pct(60, "dtail") {
			alt.Kids = append(alt.Kids, s.expr(i, depth-1, false, true))
		}
		e.Kids = append(e.Kids, alt)
	}
	if gapLead {
		// an even larger sibling takes the default arm, so that the range across the gap gets
		// case labels of its own
		e.Kids = append(e.Kids, Seq(&Expr{K: KClass, Items: []Item{{0x2000, 0xCFFF}}}))
	}
	if s.pct(35, "dwide") {
		// a sibling with a large first-character set: it becomes the default arm of the
		// switch, so that the other alternatives (whatever their size) get case labels
		wide := &Expr{K: KClass, Items: []Item{{'g', 'v'}}}
		var w *Expr = wide
		if s.pct(50, "dwideplus") {
			w = Un(KPlus, wide)
		}
		pos := rapid.IntRange(0, len(e.Kids)).Draw(t, "dwidepos")
		e.Kids = append(e.Kids[:pos], append([]*Expr{Seq(w)}, e.Kids[pos:]...)...)
	}
	if !must && s.pct(15, "demptylast") {
		e.EmptyLast = true
	}
	return e
}

// refHeavy builds a rule body that is a sequence of references to later rules (plain,
// optional or repeated), captures and terminals, so that sub-rules complete - and leave
// tokens behind - before a later element fails.
func (s *genState) refHeavy(i int) *Expr {
	t := s.t
	n := rapid.IntRange(2, 4).Draw(t, "rhn")
	e := &Expr{K: KSeq}
	guarded := false
	for k := 0; k < n; k++ {
		var el *Expr
		switch x := rapid.IntRange(0, 9).Draw(t, "rhk"); {
		case x < 6:
			var j int
			if guarded {
				j = rapid.IntRange(0, s.n-1).Draw(t, "rhg")
				if j <= i {
					j = rapid.IntRange(i+1, s.n-1).Draw(t, "rhg2") // keep recursion rare here
				}
			} else {
				j = rapid.IntRange(i+1, s.n-1).Draw(t, "rhu")
			}
			el = Ref(j)
			if s.ruleMust[j] {
				switch rapid.IntRange(0, 5).Draw(t, "rhw") {
				case 0:
					el = Un(KOpt, el)
				case 1:
					el = Un(KStar, el)
				case 2:
					el = Un(KPlus, el)
				}
			}
		case x < 8:
			el = Un(KCap, s.expr(i, 1, true, guarded))
		default:
			el = s.term()
		}
		e.Kids = append(e.Kids, el)
		if s.mustConsume(el) {
			guarded = true
		}
	}
	return e
}

// memoSplice prepends to the first rule a choice  A t1 / E t2 / A t3 / (old body)  where A
// and E are new rules matching the same text with different token structure: A succeeds,
// the parser backtracks, E overwrites (some of) A's token slots and fails on its tail, and
// A is re-entered at the same offset and token index - the case in which a memoised success
// has to restore position and tokens exactly.
func (s *genState) memoSplice(g *Grammar) {
	t := s.t
	if rapid.IntRange(0, 3).Draw(t, "msfail") == 0 {
		// the failing counterpart:  F t1 / F t2 / K t3 / (old body)  with  F <- K '=' K  and
		// K <- <x+> {action}: the same rule is tried twice at the same offset and fails both
		// times after its sub-rule has captured and (without AST) run its action - a result
		// that may be remembered, an effect that must be repeated
		x := rapid.SampledFrom(baseAlpha).Draw(t, "mfx")
		base := len(g.Rules)
		k, f := base, base+1
		kbody := Seq(Un(KCap, Un(KPlus, &Expr{K: KLit, Runes: []rune{x}})), &Expr{K: KAct})
		fbody := Seq(Ref(k), &Expr{K: KLit, Runes: []rune{'='}}, Ref(k))
		if rapid.Bool().Draw(t, "mfinner") {
			fbody = Seq(Ref(k), &Expr{K: KAct}, &Expr{K: KLit, Runes: []rune{'='}}, Ref(k))
		}
		g.Rules = append(g.Rules, &Rule{Name: fmt.Sprintf("R%d", k), Body: kbody}, &Rule{Name: fmt.Sprintf("R%d", f), Body: fbody})
		lit := func(r rune) *Expr { return &Expr{K: KLit, Runes: []rune{r}} }
		g.Rules[0].Body = &Expr{K: KAlt, Kids: []*Expr{Seq(Ref(f), lit('1')), Seq(Ref(f), lit('2')), Seq(Ref(k), lit('3')), g.Rules[0].Body}}
		s.n = len(g.Rules)
		s.ruleMust = append(s.ruleMust, true, true)
		s.known = append(s.known, true, true)
		s.rules = g.Rules
		return
	}
	msvar := rapid.IntRange(0, 7).Draw(t, "msvar")
	if s.twoCap {
		msvar = 1
	}
	if s.lookMemo {
		msvar = 0
	}
	switch msvar {
	case 0:
		// a rule remembered outside a lookahead, found again inside one by the rule that
		// contains it, which is then read for real at the same offset:
		//   R0 <- B t1 / &A A t2 / !A . / A t3 / (old) ;  A <- B 'c'? ;  B <- x
		x := rapid.SampledFrom(baseAlpha).Draw(t, "mlx")
		lit := func(r rune) *Expr { return &Expr{K: KLit, Runes: []rune{r}} }
		base := len(g.Rules)
		b, a := base, base+1
		var bbody *Expr = lit(x)
		if rapid.Bool().Draw(t, "mlcap") {
			bbody = Seq(Un(KCap, lit(x)), &Expr{K: KAct})
		}
		abody := Seq(Ref(b), Un(KOpt, lit('c')))
		if rapid.Bool().Draw(t, "mlact") {
			abody = Seq(Ref(b), &Expr{K: KAct}, Un(KStar, lit('c')))
		}
		g.Rules = append(g.Rules, &Rule{Name: fmt.Sprintf("R%d", b), Body: bbody}, &Rule{Name: fmt.Sprintf("R%d", a), Body: abody})
		la := KAnd
		kids := []*Expr{Seq(Ref(b), lit('1')), Seq(Un(la, Ref(a)), Ref(a), lit('2')), Seq(Un(KNot, Ref(a)), &Expr{K: KDot}), Seq(Ref(a), lit('3')), g.Rules[0].Body}
		if rapid.Bool().Draw(t, "mlnot") {
			// the lookahead is the negative one, twice:  !!A A t2
			kids[1] = Seq(Un(KNot, Un(KNot, Ref(a))), Ref(a), lit('2'))
		}
		g.Rules[0].Body = &Expr{K: KAlt, Kids: kids}
		s.n = len(g.Rules)
		s.ruleMust = append(s.ruleMust, true, true)
		s.known = append(s.known, true, true)
		s.rules = g.Rules
		return
	case 1:
		// two captures in one sequence with nothing that runs code between them; the second
		// part fails, and the next alternative begins with an action:
		//   R0 <- F t1 / {action} x+ '=' t2 / (old) ;  F <- <x+> '=' <x+>
		x := rapid.SampledFrom(baseAlpha).Draw(t, "m2x")
		lit := func(r rune) *Expr { return &Expr{K: KLit, Runes: []rune{r}} }
		f := len(g.Rules)
		fbody := Seq(Un(KCap, Un(KPlus, lit(x))), lit('='), Un(KCap, Un(KPlus, lit(x))))
		first := Seq(Ref(f), lit('1'))
		if rapid.Bool().Draw(t, "m2direct") {
			first = Seq(Un(KCap, Un(KPlus, lit(x))), lit('='), Un(KCap, Un(KPlus, lit(x))), lit('1'))
			fbody = Seq(Un(KCap, lit(x)), &Expr{K: KAct})
		}
		g.Rules = append(g.Rules, &Rule{Name: fmt.Sprintf("R%d", f), Body: fbody})
		second := Seq(&Expr{K: KAct}, Un(KPlus, lit(x)), lit('='), Un(KStar, lit(x)), lit('2'))
		if rapid.Bool().Draw(t, "m2short") {
			second = Seq(&Expr{K: KAct}, Un(KPlus, lit(x)), lit('='), lit('2'))
		}
		g.Rules[0].Body = &Expr{K: KAlt, Kids: []*Expr{first, second, Seq(Ref(f), lit('3')), g.Rules[0].Body}}
		s.n = len(g.Rules)
		s.ruleMust = append(s.ruleMust, true)
		s.known = append(s.known, true)
		s.rules = g.Rules
		return
	}
	x := rapid.SampledFrom(baseAlpha).Draw(t, "msx")
	lx := func() *Expr { return &Expr{K: KLit, Runes: []rune{x}} }
	base := len(g.Rules)
	c, a, e := base, base+1, base+2
	var abody, ebody *Expr
	switch rapid.IntRange(0, 3).Draw(t, "msa") {
	case 0:
		abody = Seq(Ref(c), Un(KStar, Ref(c)))
	case 1:
		abody = Seq(Un(KCap, lx()), Un(KStar, Un(KCap, lx())))
	case 2:
		abody = Seq(Ref(c), Ref(c), Un(KOpt, Ref(c)))
	default:
		abody = Seq(Un(KCap, Ref(c)), &Expr{K: KAct}, Un(KStar, Ref(c)))
	}
	switch rapid.IntRange(0, 3).Draw(t, "mse") {
	case 0:
		ebody = Seq(Un(KPlus, lx()), &Expr{K: KAct})
	case 1:
		ebody = Un(KPlus, lx())
	case 2:
		ebody = Seq(Un(KCap, Un(KPlus, lx())))
	default:
		ebody = Seq(Ref(c), Un(KStar, lx()))
	}
	tails := rapid.Permutation([]rune{'1', '2', '3', 'b', 'c', 'd'}).Draw(t, "mstails")
	var tl []rune
	for _, r := range tails {
		if r != x && len(tl) < 3 {
			tl = append(tl, r)
		}
	}
	tail := func(r rune) *Expr { return &Expr{K: KLit, Runes: []rune{r}} }
	g.Rules = append(g.Rules,
		&Rule{Name: fmt.Sprintf("R%d", c), Body: lx()},
		&Rule{Name: fmt.Sprintf("R%d", a), Body: abody},
		&Rule{Name: fmt.Sprintf("R%d", e), Body: ebody})
	g.Rules[0].Body = &Expr{K: KAlt, Kids: []*Expr{
		Seq(Ref(a), tail(tl[0])),
		Seq(Ref(e), tail(tl[1])),
		Seq(Ref(a), tail(tl[2])),
		g.Rules[0].Body,
	}}
	s.n = len(g.Rules)
	s.ruleMust = append(s.ruleMust, true, true, true)
	s.known = append(s.known, true, true, true)
	s.rules = g.Rules
}

// listSplice turns the first rule into a right-recursive list  R0 <- Item sep R0 / Item / (old)
// whose Item is a new last rule ending in an action - the grammar's last action in textual
// order - so that the first rule is re-entered right after that action ran.
func (s *genState) listSplice(g *Grammar) {
	t := s.t
	k := len(g.Rules)
	item := &Expr{K: KLit, Runes: []rune{rapid.SampledFrom(baseAlpha).Draw(t, "lsitem")}}
	var body *Expr
	switch rapid.IntRange(0, 2).Draw(t, "lsshape") {
	case 0:
		body = Seq(item, &Expr{K: KAct})
	case 1:
		body = Seq(Un(KCap, item), &Expr{K: KAct})
	default:
		body = Seq(&Expr{K: KAct}, Un(KPlus, item), &Expr{K: KAct})
	}
	g.Rules = append(g.Rules, &Rule{Name: fmt.Sprintf("R%d", k), Body: body})
	var rec *Expr
	switch rapid.IntRange(0, 2).Draw(t, "lssep") {
	case 0:
		rec = Seq(Ref(k), &Expr{K: KLit, Runes: []rune{','}}, Ref(0))
	case 1:
		rec = Seq(Ref(k), Ref(0))
	default:
		rec = Seq(Ref(k), Un(KOpt, Seq(&Expr{K: KLit, Runes: []rune{','}}, Ref(0))))
	}
	if rapid.IntRange(0, 2).Draw(t, "lswrap") == 0 {
		// the whole list is read, dropped because of what follows it, and read again from
		// the table:  R0 <- L '!' / L '?' / L / (old) ;  L <- Item sep L / Item
		l := k + 1
		lrec := Seq(Ref(k), &Expr{K: KLit, Runes: []rune{','}}, Ref(l))
		g.Rules = append(g.Rules, &Rule{Name: fmt.Sprintf("R%d", l), Body: &Expr{K: KAlt, Kids: []*Expr{lrec, Ref(k)}}})
		lit := func(r rune) *Expr { return &Expr{K: KLit, Runes: []rune{r}} }
		g.Rules[0].Body = &Expr{K: KAlt, Kids: []*Expr{Seq(Ref(l), lit('!')), Seq(Ref(l), lit('?')), Ref(l), g.Rules[0].Body}}
		s.n = len(g.Rules)
		s.ruleMust = append(s.ruleMust, true, true)
		s.known = append(s.known, true, true)
		s.rules = g.Rules
		return
	}
	g.Rules[0].Body = &Expr{K: KAlt, Kids: []*Expr{rec, Ref(k), g.Rules[0].Body}}
	s.n = len(g.Rules)
	s.ruleMust = append(s.ruleMust, true)
	s.known = append(s.known, true)
	s.rules = g.Rules
}

// itemSplice adds the bracketed-item idiom  R0 <- '(' G / '[' I / W / (old)  where G, I and W are
// new rules named exactly once (so -inline expands them in place, right behind the character
// a -switch arm has already consumed) whose bodies begin with a capture, an action or a
// plain terminal.
func (s *genState) itemSplice(g *Grammar) {
	t := s.t
	lit := func(r rune) *Expr { return &Expr{K: KLit, Runes: []rune{r}} }
	x := rapid.SampledFrom(baseAlpha).Draw(t, "isx")
	base := len(g.Rules)
	mk := func(label string, cls rune) *Expr {
		var inner *Expr = Un(KPlus, lit(x))
		switch rapid.IntRange(0, 3).Draw(t, label) {
		case 0:
			inner = Un(KCap, inner)
		case 1:
			inner = Seq(&Expr{K: KAct}, inner)
		case 2:
			inner = Seq(Un(KCap, inner), &Expr{K: KAct})
		}
		if cls != 0 {
			return Seq(inner, lit(cls))
		}
		return inner
	}
	g.Rules = append(g.Rules,
		&Rule{Name: fmt.Sprintf("R%d", base), Body: mk("isg", ')')},
		&Rule{Name: fmt.Sprintf("R%d", base+1), Body: mk("isi", ']')},
		&Rule{Name: fmt.Sprintf("R%d", base+2), Body: &Expr{K: KClass, Items: []Item{{'g', 'm'}}}})
	kids := []*Expr{Seq(lit('('), Ref(base)), Seq(lit('['), Ref(base+1)), Seq(Un(KPlus, Ref(base+2)))}
	if rapid.Bool().Draw(t, "isswap") {
		kids[0], kids[1] = kids[1], kids[0]
	}
	if rapid.IntRange(0, 2).Draw(t, "isown") > 0 {
		// the choice is the whole body of a rule of its own, named twice (a real function
		// whose first statement is the switch):  Item <- '(' G / '[' I / W+ ;
		// R0 <- Item (',' Item)* '.' / (old)
		it := base + 3
		g.Rules = append(g.Rules, &Rule{Name: fmt.Sprintf("R%d", it), Body: &Expr{K: KAlt, Kids: kids}})
		g.Rules[0].Body = &Expr{K: KAlt, Kids: []*Expr{Seq(Ref(it), Un(KStar, Seq(lit(','), Ref(it))), lit('.')), g.Rules[0].Body}}
		s.n = len(g.Rules)
		s.ruleMust = append(s.ruleMust, true, true, true, true)
		s.known = append(s.known, true, true, true, true)
		s.rules = g.Rules
		return
	}
	g.Rules[0].Body = &Expr{K: KAlt, Kids: append(kids, g.Rules[0].Body)}
	s.n = len(g.Rules)
	s.ruleMust = append(s.ruleMust, true, true, true)
	s.known = append(s.known, true, true, true)
	s.rules = g.Rules
}

// recSplice adds the nested-group idiom  G <- open B ;  B <- G close / leaf1 / leaf2 / open leaf3
// (plus variations) and lets the first rule try it first. The recursive alternative "G close"
// and the sibling "open leaf3" start with the same character, while G is still being analysed
// when B's choice is looked at.
func (s *genState) recSplice(g *Grammar) {
	t := s.t
	chars := rapid.Permutation([]rune{'(', ')', 'x', 'y', 'z', '[', ']', 'a', 'b'}).Draw(t, "rschars")
	open, cls, l1, l2, l3 := chars[0], chars[1], chars[2], chars[3], chars[4]
	lit := func(r rune) *Expr { return &Expr{K: KLit, Runes: []rune{r}} }
	base := len(g.Rules)
	gi, bi := base, base+1
	body := &Expr{K: KAlt, Kids: []*Expr{Seq(Ref(gi), lit(cls)), lit(l1), lit(l2), Seq(lit(open), lit(l3))}}
	switch rapid.IntRange(0, 3).Draw(t, "rsvar") {
	case 1: // the overlapping sibling comes first
		body.Kids[0], body.Kids[3] = body.Kids[3], body.Kids[0]
	case 2: // the recursion goes through a capture
		body.Kids[0] = Seq(Un(KCap, Ref(gi)), lit(cls))
	case 3: // five alternatives, recursion in the middle
		body.Kids = []*Expr{lit(l1), Seq(Ref(gi), lit(cls)), lit(l2), Seq(lit(open), lit(l3)), lit(cls)}
	}
	var group *Expr
	if rapid.Bool().Draw(t, "rsinline") {
		group = Seq(lit(open), Ref(bi)) // B referenced once: inlined under -inline
	} else {
		group = Seq(lit(open), Ref(bi), Un(KOpt, Seq(lit(l1), Ref(bi))))
	}
	g.Rules = append(g.Rules, &Rule{Name: fmt.Sprintf("R%d", gi), Body: group}, &Rule{Name: fmt.Sprintf("R%d", bi), Body: body})
	g.Rules[0].Body = &Expr{K: KAlt, Kids: []*Expr{Seq(Ref(gi), Un(KNot, &Expr{K: KDot})), g.Rules[0].Body}}
	s.n = len(g.Rules)
	s.ruleMust = append(s.ruleMust, true, true)
	s.known = append(s.known, true, true)
	s.rules = g.Rules
}

// stringSplice adds the quoted-text idiom of string literals and comments:
//
//	Str <- q <(!q .)*> q { action }      (also: [^q]* for the body, an escape alternative)
//
// the one place where real grammars capture arbitrary characters - multi-byte runes, NUL,
// whatever an invalid byte decodes to - and hand them to an action.
func (s *genState) stringSplice(g *Grammar) {
	t := s.t
	q := rapid.SampledFrom([]rune{'"', '\'', '`', '|', 'd'}).Draw(t, "strq")
	lit := func(r rune) *Expr { return &Expr{K: KLit, Runes: []rune{r}} }
	var body *Expr
	switch rapid.IntRange(0, 3).Draw(t, "strbody") {
	case 0:
		body = Un(KStar, Seq(Un(KNot, lit(q)), &Expr{K: KDot}))
	case 1:
		body = Un(KStar, &Expr{K: KClass, Neg: true, Items: []Item{{q, q}}})
	case 2:
		body = Un(KStar, &Expr{K: KAlt, Kids: []*Expr{Seq(lit('\\'), &Expr{K: KDot}), Seq(Un(KNot, lit(q)), &Expr{K: KDot})}})
	default:
		body = Un(KPlus, &Expr{K: KClass, Neg: true, Items: []Item{{q, q}, {'\n', '\n'}}})
	}
	base := len(g.Rules)
	str := Seq(lit(q), Un(KCap, body), lit(q), &Expr{K: KAct})
	if s.pct(30, "strinner") {
		// the action sits inside the quotes, and a second capture follows
		str = Seq(lit(q), Un(KCap, body), &Expr{K: KAct}, lit(q), Un(KCap, Un(KOpt, lit('a'))), &Expr{K: KAct})
	}
	g.Rules = append(g.Rules, &Rule{Name: fmt.Sprintf("R%d", base), Body: str})
	var call *Expr
	switch rapid.IntRange(0, 2).Draw(t, "strcall") {
	case 0:
		call = Ref(base)
	case 1:
		call = Seq(Ref(base), Un(KStar, Seq(lit(' '), Ref(base))))
	default:
		call = Seq(Un(KOpt, lit('a')), Ref(base), Un(KNot, &Expr{K: KDot}))
	}
	g.Rules[0].Body = &Expr{K: KAlt, Kids: []*Expr{call, g.Rules[0].Body}}
	s.ruleMust = append(s.ruleMust, true)
	s.known = append(s.known, true)
	s.n = len(g.Rules)
	s.rules = g.Rules
}

// keywordSplice adds the idiom hand-written grammars use most:  Ident <- !Keyword Letter+  with
// Keyword <- ('ab' / 'abc' ...) !Letter.  The keyword rule is named once (what -inline expands
// in place) or twice, fails after having read a prefix on most identifiers, and is guarded by
// & or ! so that nothing it read or recorded may survive.
func (s *genState) keywordSplice(g *Grammar) {
	t := s.t
	lit := func(rs ...rune) *Expr { return &Expr{K: KLit, Runes: rs} }
	letter := func() *Expr { return &Expr{K: KClass, Items: []Item{{'a', 'd'}}} }
	base := len(g.Rules)
	k, id := base, base+1
	word := func(label string) *Expr {
		n := rapid.IntRange(2, 3).Draw(t, label)
		e := &Expr{K: KLit}
		for i := 0; i < n; i++ {
			e.Runes = append(e.Runes, rapid.SampledFrom(baseAlpha).Draw(t, label+"r"))
		}
		return e
	}
	var kbody *Expr
	switch rapid.IntRange(0, 3).Draw(t, "kwshape") {
	case 0:
		kbody = Seq(word("kw1"), Un(KNot, letter()))
	case 1:
		kbody = Seq(&Expr{K: KAlt, Kids: []*Expr{word("kw1"), word("kw2")}}, Un(KNot, letter()))
	case 2:
		kbody = Seq(Un(KCap, word("kw1")), Un(KNot, letter()))
	default:
		kbody = Seq(word("kw1"), &Expr{K: KAct}, Un(KNot, letter()))
	}
	guard := KNot
	if s.pct(20, "kwand") {
		guard = KAnd
	}
	var ident *Expr
	switch rapid.IntRange(0, 2).Draw(t, "idshape") {
	case 0:
		ident = Seq(Un(guard, Ref(k)), Un(KPlus, letter()))
	case 1:
		ident = Seq(Un(guard, Ref(k)), Un(KCap, Un(KPlus, letter())), &Expr{K: KAct})
	default:
		ident = Seq(Un(guard, Ref(k)), letter(), Un(KStar, letter()))
	}
	g.Rules = append(g.Rules, &Rule{Name: fmt.Sprintf("R%d", k), Body: kbody}, &Rule{Name: fmt.Sprintf("R%d", id), Body: ident})
	tails := rapid.Permutation([]rune{'1', '2', ';', ' '}).Draw(t, "kwtails")
	alt := &Expr{K: KAlt}
	if s.pct(35, "kwtwice") {
		// the keyword itself is also a statement: the rule is named twice
		alt.Kids = append(alt.Kids, Seq(Ref(k), lit(tails[0])))
	}
	switch rapid.IntRange(0, 2).Draw(t, "kwlist") {
	case 0:
		alt.Kids = append(alt.Kids, Seq(Ref(id), lit(tails[1])))
	case 1:
		alt.Kids = append(alt.Kids, Seq(Un(KPlus, Seq(Ref(id), lit(tails[1]))), Un(KNot, &Expr{K: KDot})))
	default:
		alt.Kids = append(alt.Kids, Seq(Ref(id), Un(KStar, Seq(lit(tails[1]), Ref(id)))))
	}
	alt.Kids = append(alt.Kids, g.Rules[0].Body)
	g.Rules[0].Body = alt
	s.ruleMust = append(s.ruleMust, true, true)
	s.known = append(s.known, true, true)
	s.n = len(g.Rules)
	s.rules = g.Rules
}

// extremeSplice adds a rule X that can never succeed or can never fail - the classes a
// generator reasons about when it drops failure branches ("always succeeds") - reached
// through zero to two wrappers, and calls it in front of the first rule's old body where
// its outcome decides the parse:  R0 <- X t1 / !X t2 / &X t3 / <X> t4 / (old body).
func (s *genState) extremeSplice(g *Grammar) {
	t := s.t
	lit := func(r rune) *Expr { return &Expr{K: KLit, Runes: []rune{r}} }
	c := rapid.SampledFrom(baseAlpha).Draw(t, "xc")
	never := rapid.Bool().Draw(t, "xnever")
	// an expression that cannot fail
	always := func(label string) *Expr {
		switch rapid.IntRange(0, 7).Draw(t, label) {
		case 0:
			return Un(KStar, lit(c))
		case 1:
			return Un(KOpt, lit(c))
		case 2:
			return &Expr{K: KEmpty}
		case 3:
			return &Expr{K: KAct}
		case 4:
			return Un(KAnd, &Expr{K: KEmpty})
		case 5:
			return Un(KCap, Un(KStar, lit(c)))
		case 6:
			return &Expr{K: KAlt, Kids: []*Expr{lit(c)}, EmptyLast: true}
		default:
			return Seq(Un(KOpt, lit(c)), &Expr{K: KAct})
		}
	}
	base := len(g.Rules)
	var body *Expr
	var extra []*Rule
	if never {
		switch rapid.IntRange(0, 7).Draw(t, "xn") {
		case 6:
			// a negative lookahead over single characters and an empty alternative
			body = Un(KNot, &Expr{K: KAlt, Kids: []*Expr{lit(c), lit(';')}, EmptyLast: true})
		case 7:
			body = Un(KNot, &Expr{K: KAlt, Kids: []*Expr{{K: KClass, Items: []Item{{'a', 'b'}}}, lit(',')}, EmptyLast: true})
		case 0:
			body = Un(KNot, &Expr{K: KEmpty})
		case 1:
			body = &Expr{K: KClass}
		case 2:
			body = Un(KNot, always("xna"))
		case 3:
			// through a second rule that cannot fail
			extra = append(extra, &Rule{Name: fmt.Sprintf("R%d", base+1), Body: always("xnr")})
			body = Un(KNot, Ref(base+1))
		case 4:
			body = Un(KAnd, Un(KNot, always("xnb")))
		default:
			body = Seq(always("xnc"), Un(KNot, &Expr{K: KEmpty}))
		}
	} else {
		body = always("xa")
		if rapid.Bool().Draw(t, "xar") {
			extra = append(extra, &Rule{Name: fmt.Sprintf("R%d", base+1), Body: body})
			body = Ref(base + 1)
		}
	}
	switch rapid.IntRange(0, 4).Draw(t, "xw") {
	case 0:
		body = Un(KCap, body)
	case 1:
		body = Un(KAnd, body)
	case 2:
		body = Seq(&Expr{K: KAct}, body)
	}
	g.Rules = append(g.Rules, &Rule{Name: fmt.Sprintf("R%d", base), Body: body})
	g.Rules = append(g.Rules, extra...)
	x := func() *Expr { return Ref(base) }
	tails := rapid.Permutation([]rune{'a', 'b', 'c', 'd', '1', '2'}).Draw(t, "xtails")
	calls := []*Expr{
		Seq(x(), lit(tails[0])),
		Seq(Un(KNot, x()), lit(tails[1])),
		Seq(Un(KAnd, x()), lit(tails[2])),
		Seq(Un(KCap, x()), lit(tails[3])),
		Seq(Un(KOpt, x()), lit(tails[4])),
		Seq(lit(tails[5]), x(), lit(tails[0])),
	}
	n := rapid.IntRange(1, 3).Draw(t, "xncalls")
	order := rapid.Permutation([]int{0, 1, 2, 3, 4, 5}).Draw(t, "xorder")
	alt := &Expr{K: KAlt}
	for _, k := range order[:n] {
		alt.Kids = append(alt.Kids, calls[k])
	}
	alt.Kids = append(alt.Kids, g.Rules[0].Body)
	g.Rules[0].Body = alt
	for range g.Rules[s.n:] {
		s.ruleMust = append(s.ruleMust, false)
		s.known = append(s.known, true)
	}
	s.n = len(g.Rules)
	s.rules = g.Rules
}

// WellFormedGrammar draws a well-formed grammar of the profile. Every rule is reachable
// from the first one.
func WellFormedGrammar(t *rapid.T, p Profile) *Grammar {
	s := &genState{t: t, p: p}
	s.n = rapid.IntRange(p.MinRules, p.MaxRules).Draw(t, "nrules")
	s.ruleMust = make([]bool, s.n)
	s.known = make([]bool, s.n)
	s.rules = make([]*Rule, s.n)
	for i := s.n - 1; i >= 0; i-- {
		must := s.pct(70, "rulemust")
		depth := p.Depth
		if i > 0 && s.pct(30, "shallow") {
			depth--
		}
		var e *Expr
		if i > 0 && s.pct(3, "emptybody") {
			// a rule with an empty body matches the empty string
			s.rules[i] = &Rule{Name: fmt.Sprintf("R%d", i), Body: &Expr{K: KEmpty}}
			s.ruleMust[i], s.known[i] = false, true
			continue
		}
		if p.RefHeavy && i < s.n-1 && s.pct(80, "refheavy") {
			e = s.refHeavy(i)
		} else {
			e = s.expr(i, depth, must, false)
		}
		s.rules[i] = &Rule{Name: fmt.Sprintf("R%d", i), Body: e}
		s.ruleMust[i] = s.mustConsume(e)
		s.known[i] = true
	}
	g := &Grammar{Package: "g", Struct: "G", Rules: s.rules}
	if s.pct(p.MemoSplice, "memosplice") {
		s.memoSplice(g)
	}
	if s.pct(p.TwoCapSplice, "twocapsplice") {
		s.twoCap = true
		s.memoSplice(g)
		s.twoCap = false
	}
	if s.pct(p.LookSplice, "looksplice") {
		s.lookMemo = true
		s.memoSplice(g)
		s.lookMemo = false
	}
	if s.pct(p.RecSplice, "recsplice") {
		s.recSplice(g)
	}
	if s.pct(p.ListSplice, "listsplice") {
		s.listSplice(g)
	}
	if s.pct(p.ItemSplice, "itemsplice") {
		s.itemSplice(g)
	}
	if s.pct(p.ExtremeSplice, "extremesplice") {
		s.extremeSplice(g)
	}
	if s.pct(p.KeywordSplice, "keywordsplice") {
		s.keywordSplice(g)
	}
	if s.pct(p.StringSplice, "stringsplice") {
		s.stringSplice(g)
	}
	// reachability: append references to unreachable rules to the first rule
	reach := g.Reachable()
	var tail []*Expr
	for j := 1; j < s.n; j++ {
		if !reach[j] {
			if s.ruleMust[j] {
				tail = append(tail, Un(KOpt, Ref(j)))
			} else {
				tail = append(tail, Ref(j))
			}
		}
	}
	if len(tail) > 0 {
		g.Rules[0].Body = &Expr{K: KSeq, Kids: append([]*Expr{g.Rules[0].Body}, tail...)}
	}
	g.Number()
	return g
}

// ---------------------------------------------------------------------------------
// inputs

// Chooser abstracts the source of choices of the input sampler.
type Chooser interface {
	Intn(n int) int
}

type RapidChooser struct{ T *rapid.T }

func (c RapidChooser) Intn(n int) int {
	if n <= 1 {
		return 0
	}
	return rapid.IntRange(0, n-1).Draw(c.T, "c")
}

var sampleAlpha = append(append([]rune{}, baseAlpha...), 'é', '世', '😀', '\n', 'A', 'z', '\'', 0, 'k', 'K', 's', 'S', 0x212A, 0x17F, 0x131, 0x130)

// Sample walks the grammar from rule entry emitting runes of one (almost) matching string.
func Sample(g *Grammar, entry int, c Chooser, maxLen int) []rune {
	return SamplePumped(g, entry, c, maxLen, 4)
}

// SamplePumped is Sample with repetitions iterated up to loopMax-1 times: long inputs that
// still (almost) match, for whatever depends on offsets and token counts growing.
func SamplePumped(g *Grammar, entry int, c Chooser, maxLen, loopMax int) []rune {
	var out []rune
	var ev func(e *Expr, d int)
	ev = func(e *Expr, d int) {
		if len(out) >= maxLen || d > 14 {
			return
		}
		switch e.K {
		case KLit:
			for _, r := range e.Runes {
				if e.CI && isASCIILetter(r) && c.Intn(2) == 1 {
					if r >= 'a' {
						r -= 32
					} else {
						r += 32
					}
				}
				out = append(out, r)
			}
		case KClass:
			if len(e.Items) == 0 {
				// the empty class matches nothing
			} else if !e.Neg {
				it := e.Items[c.Intn(len(e.Items))]
				r := it.Lo + rune(c.Intn(int(it.Hi-it.Lo)+1))
				if r >= 0xD800 && r <= 0xDFFF {
					r = it.Hi // no character: take the bound behind the gap
					if c.Intn(2) == 0 {
						r = 0xE000
					}
				}
				out = append(out, r)
			} else {
				for tries := 0; tries < 8; tries++ {
					r := sampleAlpha[c.Intn(len(sampleAlpha))]
					if !MatchItems(e.Items, r, e.CI) {
						out = append(out, r)
						break
					}
				}
			}
		case KDot:
			out = append(out, sampleAlpha[c.Intn(len(sampleAlpha))])
		case KRef:
			if e.Name == "" {
				ev(g.Rules[e.Rule].Body, d+1)
			}
		case KCap:
			ev(e.Kids[0], d)
		case KSeq:
			stop := len(e.Kids)
			if d > 0 || len(out) > 0 {
				// now and then abandon a sequence midway: the text then matches a prefix of
				// it, and whatever encloses it has to restore the position
				if c.Intn(7) == 0 {
					stop = c.Intn(len(e.Kids) + 1)
				}
			}
			for _, k := range e.Kids[:stop] {
				ev(k, d)
			}
		case KAnd, KNot:
			// usually contribute nothing; sometimes the text the operand would match, and
			// sometimes a proper prefix of it: a near miss, on which the operand fails only
			// after having read something
			switch c.Intn(5) {
			case 0:
				ev(e.Kids[0], d+1)
			case 1:
				before := len(out)
				ev(e.Kids[0], d+1)
				if n := len(out) - before; n >= 2 {
					out = out[:before+1+c.Intn(n-1)]
				}
			}
		case KAlt:
			n := len(e.Kids)
			if e.EmptyLast {
				n++
			}
			if k := c.Intn(n); k < len(e.Kids) {
				ev(e.Kids[k], d)
			}
		case KOpt:
			if c.Intn(2) == 1 {
				ev(e.Kids[0], d)
			}
		case KStar, KPlus:
			n := c.Intn(loopMax)
			if e.K == KPlus && n == 0 {
				n = 1
			}
			for i := 0; i < n; i++ {
				ev(e.Kids[0], d)
			}
		}
	}
	ev(g.Rules[entry].Body, 0)
	if len(out) > maxLen {
		out = out[:maxLen]
	}
	return out
}

// Mutate applies one or two small edits.
func Mutate(in []rune, c Chooser) []rune {
	s := append([]rune(nil), in...)
	for n := 1 + c.Intn(2); n > 0; n-- {
		switch k := c.Intn(10); {
		case k < 3 && len(s) > 0:
			i := c.Intn(len(s))
			s = append(s[:i], s[i+1:]...)
		case k < 6:
			i := c.Intn(len(s) + 1)
			r := sampleAlpha[c.Intn(len(sampleAlpha))]
			s = append(s[:i], append([]rune{r}, s[i:]...)...)
		case k < 8 && len(s) > 0:
			s[c.Intn(len(s))] = sampleAlpha[c.Intn(len(sampleAlpha))]
		case k < 9 && len(s) > 0:
			s = s[:c.Intn(len(s))]
		case len(s) > 1:
			i := c.Intn(len(s))
			j := i + c.Intn(len(s)-i)
			s = append(s[:j], append(append([]rune{}, s[i:j]...), s[j:]...)...)
		}
	}
	return s
}
