package gram

import (
	"fmt"

	"pgregory.net/rapid"
)

// Injection records what a defect injector did.
type Injection struct {
	Kind string `json:"kind"`
	Via  string `json:"via,omitempty"` // operator through which a recursion is reached
	Rule string `json:"rule,omitempty"`
}

var wrapKinds = []struct {
	Name string
	K    Kind
}{{"plain", KSeq}, {"opt", KOpt}, {"star", KStar}, {"plus", KPlus}, {"and", KAnd}, {"not", KNot}, {"capture", KCap}}

// IllFormedOpts selects which injectors may be used (open known findings exclude shapes).
type IllFormedOpts struct {
	NoEmptyBody bool
	NoDuplicate bool
}

// IllFormedGrammar draws a small grammar and applies 0-3 defect injectors. With zero
// injections the result is a sharp negative example (guarded recursion under every operator).
func IllFormedGrammar(t *rapid.T, o IllFormedOpts) (*Grammar, []Injection) {
	p := Profiles["plain"]
	p.MaxRules = 5
	p.Depth = 2
	p.WPred, p.WState = 1, 0
	p.Hostile, p.Newline = 2, 0
	g := WellFormedGrammar(t, p)
	term := func() *Expr {
		return &Expr{K: KLit, Runes: []rune{rapid.SampledFrom(baseAlpha).Draw(t, "it")}}
	}
	wrap := func(e *Expr, label string) (*Expr, string) {
		w := rapid.SampledFrom(wrapKinds).Draw(t, label)
		if w.K == KSeq {
			return e, w.Name
		}
		return Un(w.K, e), w.Name
	}
	// place puts expression x at a left-reachable position of rule r
	place := func(r int, x *Expr, label string) string {
		old := g.Rules[r].Body
		switch rapid.IntRange(0, 8).Draw(t, label) {
		case 7, 8: // last alternative of a choice that -switch dispatches on its first characters
			lit := func(r rune) *Expr { return &Expr{K: KLit, Runes: []rune{r}} }
			g.Rules[r].Body = &Expr{K: KAlt, Kids: []*Expr{Seq(lit('a'), lit('a')), lit('b'), Seq(lit('c'), Un(KOpt, lit('d'))), Seq(x, lit('e'))}}
			return "last-alternative-of-a-dispatch-choice"
		case 5: // after a semantic predicate: consumes nothing, whatever it computes
			g.Rules[r].Body = Seq(&Expr{K: KPred, Pred: rapid.IntRange(0, len(Predicates)-1).Draw(t, label+"pred")}, x, old)
			return "after-predicate"
		case 6: // after a state change and an empty expression
			g.Rules[r].Body = Seq(&Expr{K: KState}, &Expr{K: KEmpty}, x, old)
			return "after-state-change"
		case 0: // first element of a sequence
			g.Rules[r].Body = Seq(x, term())
			return "first"
		case 1: // after a nullable prefix
			g.Rules[r].Body = Seq(Un(KOpt, term()), x, term())
			return "after-nullable-prefix"
		case 2: // second alternative, after a consuming one
			g.Rules[r].Body = &Expr{K: KAlt, Kids: []*Expr{Seq(term(), old), Seq(x, term())}}
			return "second-alternative"
		case 3: // third alternative, after a non-consuming one
			g.Rules[r].Body = &Expr{K: KAlt, Kids: []*Expr{Seq(term(), term()), Un(KAnd, term()), Seq(x, term())}}
			return "after-non-consuming-alternative"
		default: // after a lookahead and an action
			g.Rules[r].Body = Seq(Un(KNot, term()), &Expr{K: KAct}, x, old)
			return "after-lookahead-and-action"
		}
	}
	var inj []Injection
	n := rapid.IntRange(0, 3).Draw(t, "ninj")
	for k := 0; k < n; k++ {
		kinds := []string{"leftrec-direct", "leftrec-indirect", "undefined", "unreachable", "unreachable-cycle", "undefined-from-unreachable", "unreachable-leftrec"}
		if !o.NoDuplicate {
			kinds = append(kinds, "duplicate")
		}
		if !o.NoEmptyBody {
			kinds = append(kinds, "empty-body")
		}
		switch kind := rapid.SampledFrom(kinds).Draw(t, "inj"); kind {
		case "leftrec-direct":
			r := rapid.IntRange(0, len(g.Rules)-1).Draw(t, "lr")
			x, via := wrap(Ref(r), "lrw")
			pos := place(r, x, "lrp")
			inj = append(inj, Injection{Kind: kind, Via: via + "/" + pos, Rule: g.Rules[r].Name})
		case "leftrec-indirect":
			if len(g.Rules) < 2 {
				continue
			}
			a := rapid.IntRange(0, len(g.Rules)-1).Draw(t, "lia")
			b := rapid.IntRange(0, len(g.Rules)-2).Draw(t, "lib")
			if b >= a {
				b++
			}
			x, via := wrap(Ref(b), "liw")
			pos := place(a, x, "lip")
			y, via2 := wrap(Ref(a), "liw2")
			pos2 := place(b, y, "lip2")
			inj = append(inj, Injection{Kind: kind, Via: via + "/" + pos + "+" + via2 + "/" + pos2, Rule: g.Rules[a].Name + "," + g.Rules[b].Name})
		case "undefined":
			r := rapid.IntRange(0, len(g.Rules)-1).Draw(t, "ur")
			name := fmt.Sprintf("Undef%d", k)
			x, via := wrap(&Expr{K: KRef, Name: name}, "uw")
			g.Rules[r].Body = Seq(g.Rules[r].Body, x)
			inj = append(inj, Injection{Kind: kind, Via: via, Rule: name})
		case "unreachable":
			name := fmt.Sprintf("Lonely%d", k)
			body := Seq(term(), Un(KOpt, Ref(rapid.IntRange(0, len(g.Rules)-1).Draw(t, "unr"))))
			if rapid.Bool().Draw(t, "unact") {
				body.Kids = append(body.Kids, &Expr{K: KAct})
			}
			g.Rules = append(g.Rules, &Rule{Name: name, Body: body})
			inj = append(inj, Injection{Kind: kind, Rule: name})
		case "unreachable-cycle":
			i := len(g.Rules)
			a, b := fmt.Sprintf("CycA%d", k), fmt.Sprintf("CycB%d", k)
			g.Rules = append(g.Rules, &Rule{Name: a, Body: Seq(term(), Ref(i+1))}, &Rule{Name: b, Body: Seq(term(), Un(KOpt, Ref(i)))})
			inj = append(inj, Injection{Kind: kind, Rule: a + "," + b})
		case "unreachable-leftrec":
			// one rule earns two diagnostics: it is unreachable and left-recursive
			i := len(g.Rules)
			name := fmt.Sprintf("Loop%d", k)
			x, via := wrap(Ref(i), "ulw")
			g.Rules = append(g.Rules, &Rule{Name: name, Body: &Expr{K: KAlt, Kids: []*Expr{Seq(x, term()), term()}}})
			inj = append(inj, Injection{Kind: kind, Via: via + "/first", Rule: name})
		case "undefined-from-unreachable":
			name, undef := fmt.Sprintf("Lost%d", k), fmt.Sprintf("Nowhere%d", k)
			g.Rules = append(g.Rules, &Rule{Name: name, Body: Seq(term(), &Expr{K: KRef, Name: undef})})
			inj = append(inj, Injection{Kind: kind, Rule: name + "->" + undef})
		case "duplicate":
			r := rapid.IntRange(0, len(g.Rules)-1).Draw(t, "dr")
			g.Rules = append(g.Rules, &Rule{Name: g.Rules[r].Name, Body: term()})
			inj = append(inj, Injection{Kind: kind, Rule: g.Rules[r].Name})
		case "empty-body":
			r := rapid.IntRange(1, len(g.Rules)).Draw(t, "er")
			if r >= len(g.Rules) {
				name := fmt.Sprintf("Blank%d", k)
				g.Rules = append(g.Rules, &Rule{Name: name, Body: &Expr{K: KEmpty}})
				g.Rules[0].Body = Seq(g.Rules[0].Body, Ref(len(g.Rules)-1))
				inj = append(inj, Injection{Kind: kind, Rule: name})
			} else {
				g.Rules[r].Body = &Expr{K: KEmpty}
				inj = append(inj, Injection{Kind: kind, Rule: g.Rules[r].Name})
			}
		}
	}
	g.Package, g.Struct = "g", "G"
	g.Fields = "\n N int\n"
	for _, r := range g.Rules {
		r.Body.Walk(func(e *Expr) {
			switch e.K {
			case KAct:
				e.Code = " p.N++ "
			case KState:
				e.Code = " p.N++ "
			}
		})
	}
	g.Number()
	return g, inj
}

// HasDuplicates reports whether a rule name is defined twice, and returns such names.
func (g *Grammar) Duplicates() []string {
	seen := map[string]int{}
	for _, r := range g.Rules {
		seen[r.Name]++
	}
	dup := map[string]bool{}
	for n, c := range seen {
		if c > 1 {
			dup[n] = true
		}
	}
	return sortedKeys(dup)
}
