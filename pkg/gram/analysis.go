package gram

import "sort"

// Nullable computes, for every rule, whether it can succeed without consuming input
// (least fixpoint; references to undefined names are treated as nullable stubs, which is
// what an undefined rule would be if it existed with an empty body).
func (g *Grammar) Nullable() []bool {
	null := make([]bool, len(g.Rules))
	idx := g.index()
	for changed := true; changed; {
		changed = false
		for i, r := range g.Rules {
			if !null[i] && g.exprNullable(r.Body, null, idx) {
				null[i] = true
				changed = true
			}
		}
	}
	return null
}

func (g *Grammar) index() map[string]int {
	idx := map[string]int{}
	for i, r := range g.Rules {
		if _, ok := idx[r.Name]; !ok {
			idx[r.Name] = i
		}
	}
	return idx
}

// Target resolves a reference to a rule index, -1 when the name is undefined.
func (g *Grammar) Target(e *Expr, idx map[string]int) int {
	if e.Name == "" {
		return e.Rule
	}
	if i, ok := idx[e.Name]; ok {
		return i
	}
	return -1
}

func (g *Grammar) exprNullable(e *Expr, null []bool, idx map[string]int) bool {
	switch e.K {
	case KEmpty, KOpt, KStar, KAnd, KNot, KAct, KPred, KState:
		return true
	case KLit:
		return len(e.Runes) == 0
	case KClass, KDot:
		return false
	case KRef:
		t := g.Target(e, idx)
		if t < 0 {
			return true
		}
		return null[t]
	case KSeq:
		for _, k := range e.Kids {
			if !g.exprNullable(k, null, idx) {
				return false
			}
		}
		return true
	case KAlt:
		if e.EmptyLast {
			return true
		}
		for _, k := range e.Kids {
			if g.exprNullable(k, null, idx) {
				return true
			}
		}
		return false
	case KPlus, KCap:
		return g.exprNullable(e.Kids[0], null, idx)
	}
	return false
}

// leftReach collects the rules an expression can invoke before consuming anything.
func (g *Grammar) leftReach(e *Expr, null []bool, idx map[string]int, out map[int]bool) {
	switch e.K {
	case KRef:
		if t := g.Target(e, idx); t >= 0 {
			out[t] = true
		}
	case KSeq:
		for _, k := range e.Kids {
			g.leftReach(k, null, idx, out)
			if !g.exprNullable(k, null, idx) {
				return
			}
		}
	case KAlt:
		for _, k := range e.Kids {
			g.leftReach(k, null, idx, out)
		}
	case KOpt, KStar, KPlus, KAnd, KNot, KCap:
		g.leftReach(e.Kids[0], null, idx, out)
	}
}

// LeftRecursive returns the set of rules that can re-enter themselves without having
// consumed input, computed with the given nullability assignment.
func (g *Grammar) LeftRecursive(null []bool) []bool {
	idx := g.index()
	n := len(g.Rules)
	edges := make([]map[int]bool, n)
	for i, r := range g.Rules {
		edges[i] = map[int]bool{}
		g.leftReach(r.Body, null, idx, edges[i])
	}
	res := make([]bool, n)
	for i := range g.Rules {
		seen := map[int]bool{}
		stack := []int{}
		for j := range edges[i] {
			stack = append(stack, j)
		}
		for len(stack) > 0 {
			j := stack[len(stack)-1]
			stack = stack[:len(stack)-1]
			if seen[j] {
				continue
			}
			seen[j] = true
			for k := range edges[j] {
				stack = append(stack, k)
			}
		}
		res[i] = seen[i]
	}
	return res
}

// NullableMax is the greatest-fixpoint variant used for the Lmin/Lmax sandwich of C15:
// every rule that takes part in a left-recursive cycle is additionally assumed nullable.
func (g *Grammar) NullableMax() []bool {
	null := g.Nullable()
	for {
		lr := g.LeftRecursive(null)
		changed := false
		for i := range null {
			if lr[i] && !null[i] {
				null[i] = true
				changed = true
			}
		}
		if !changed {
			break
		}
		// propagate
		idx := g.index()
		for ch := true; ch; {
			ch = false
			for i, r := range g.Rules {
				if !null[i] && g.exprNullable(r.Body, null, idx) {
					null[i] = true
					ch = true
				}
			}
		}
	}
	return null
}

// StarOfNullable reports whether some * or + is applied to an expression that can succeed
// without consuming (the generated parser would loop forever on it).
func (g *Grammar) StarOfNullable() bool {
	null := g.Nullable()
	idx := g.index()
	bad := false
	for _, r := range g.Rules {
		r.Body.Walk(func(e *Expr) {
			if (e.K == KStar || e.K == KPlus) && g.exprNullable(e.Kids[0], null, idx) {
				bad = true
			}
		})
	}
	return bad
}

// WellFormed is the precondition of C01: no left recursion, no repetition of a nullable
// expression, every reference defined, no duplicate rule names.
func (g *Grammar) WellFormed() bool {
	idx := map[string]bool{}
	for _, r := range g.Rules {
		if idx[r.Name] {
			return false
		}
		idx[r.Name] = true
	}
	if len(g.Undefined()) > 0 {
		return false
	}
	for _, b := range g.LeftRecursive(g.Nullable()) {
		if b {
			return false
		}
	}
	return !g.StarOfNullable()
}

// Undefined returns the referenced names that have no definition (sorted).
func (g *Grammar) Undefined() []string {
	idx := g.index()
	set := map[string]bool{}
	for _, r := range g.Rules {
		r.Body.Walk(func(e *Expr) {
			if e.K == KRef && g.Target(e, idx) < 0 {
				set[e.Name] = true
			}
		})
	}
	return sortedKeys(set)
}

// Reachable returns, per rule, whether it is reachable from the first rule through
// references under any operator.
func (g *Grammar) Reachable() []bool {
	idx := g.index()
	reach := make([]bool, len(g.Rules))
	if len(g.Rules) == 0 {
		return reach
	}
	var visit func(i int)
	visit = func(i int) {
		if reach[i] {
			return
		}
		reach[i] = true
		g.Rules[i].Body.Walk(func(e *Expr) {
			if e.K == KRef {
				if t := g.Target(e, idx); t >= 0 {
					visit(t)
				}
			}
		})
	}
	visit(0)
	return reach
}

// RefCounts returns how many references to each rule occur in rules reachable from the
// first rule (the first rule itself counts one extra, as the entry point).
func (g *Grammar) RefCounts() []int {
	idx := g.index()
	reach := g.Reachable()
	cnt := make([]int, len(g.Rules))
	if len(cnt) > 0 {
		cnt[0]++
	}
	for i, r := range g.Rules {
		if !reach[i] {
			continue
		}
		r.Body.Walk(func(e *Expr) {
			if e.K == KRef {
				if t := g.Target(e, idx); t >= 0 {
					cnt[t]++
				}
			}
		})
	}
	return cnt
}

func sortedKeys(m map[string]bool) []string {
	out := make([]string, 0, len(m))
	for k := range m {
		out = append(out, k)
	}
	sort.Strings(out)
	return out
}
