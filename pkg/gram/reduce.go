package gram

// Reduced is one shrinking candidate of a grammar together with the new index of the
// entry rule.
type Reduced struct {
	G     *Grammar
	Entry int
}

// prune removes rules unreachable from the first rule and renumbers references; it returns
// nil when the entry rule is lost.
func prune(g *Grammar, entry int) *Reduced {
	reach := g.Reachable()
	if entry >= len(reach) || !reach[entry] {
		return nil
	}
	remap := make([]int, len(g.Rules))
	var rules []*Rule
	for i, r := range g.Rules {
		if reach[i] {
			remap[i] = len(rules)
			rules = append(rules, r)
		} else {
			remap[i] = -1
		}
	}
	for _, r := range rules {
		r.Body.Walk(func(e *Expr) {
			if e.K == KRef && e.Name == "" {
				e.Rule = remap[e.Rule]
			}
		})
	}
	g.Rules = rules
	g.Number()
	return &Reduced{G: g, Entry: remap[entry]}
}

// nth returns the n-th node (pre-order) of rule r of g and its parent slot.
func nth(g *Grammar, r, n int) (node *Expr, set func(*Expr)) {
	i := 0
	var walk func(e *Expr, put func(*Expr)) bool
	walk = func(e *Expr, put func(*Expr)) bool {
		if i == n {
			node, set = e, put
			return true
		}
		i++
		for k := range e.Kids {
			k := k
			if walk(e.Kids[k], func(x *Expr) { e.Kids[k] = x }) {
				return true
			}
		}
		return false
	}
	walk(g.Rules[r].Body, func(x *Expr) { g.Rules[r].Body = x })
	return
}

// Reductions enumerates one-step simplifications that keep the grammar well formed and
// every rule reachable. Larger cuts come first.
func Reductions(g *Grammar, entry int) []Reduced {
	var out []Reduced
	emit := func(c *Grammar, e int) {
		r := prune(c, e)
		if r == nil || !r.G.WellFormed() {
			return
		}
		out = append(out, *r)
	}
	// make the entry rule the first rule
	if entry != 0 {
		c := g.Clone()
		perm := make([]int, len(c.Rules)) // old index -> new index
		var rules []*Rule
		rules = append(rules, c.Rules[entry])
		perm[entry] = 0
		for i, r := range c.Rules {
			if i != entry {
				perm[i] = len(rules)
				rules = append(rules, r)
			}
		}
		for _, r := range rules {
			r.Body.Walk(func(e *Expr) {
				if e.K == KRef && e.Name == "" {
					e.Rule = perm[e.Rule]
				}
			})
		}
		c.Rules = rules
		// names follow the index so that renderings stay canonical
		emit(c, 0)
	}
	type mod func(e *Expr, set func(*Expr)) bool
	apply := func(r, n int, m mod) {
		c := g.Clone()
		e, set := nth(c, r, n)
		if e == nil || !m(e, set) {
			return
		}
		emit(c, entry)
	}
	var big, mid, small []func()
	for r := range g.Rules {
		n := 0
		g.Rules[r].Body.Walk(func(e *Expr) {
			idx := n
			n++
			r := r
			switch e.K {
			case KSeq, KAlt:
				for j := range e.Kids {
					j := j
					big = append(big, func() {
						apply(r, idx, func(e *Expr, set func(*Expr)) bool { set(e.Kids[j]); return true })
					})
					if len(e.Kids) >= 2 {
						mid = append(mid, func() {
							apply(r, idx, func(e *Expr, set func(*Expr)) bool {
								e.Kids = append(append([]*Expr{}, e.Kids[:j]...), e.Kids[j+1:]...)
								return true
							})
						})
					}
				}
				if e.EmptyLast {
					small = append(small, func() {
						apply(r, idx, func(e *Expr, set func(*Expr)) bool { e.EmptyLast = false; return true })
					})
				}
			case KOpt, KStar, KPlus, KAnd, KNot, KCap:
				big = append(big, func() {
					apply(r, idx, func(e *Expr, set func(*Expr)) bool { set(e.Kids[0]); return true })
				})
				if e.K == KPlus || e.K == KStar {
					small = append(small, func() {
						apply(r, idx, func(e *Expr, set func(*Expr)) bool { e.K = KOpt; return true })
					})
				}
			case KLit:
				if len(e.Runes) > 1 {
					small = append(small, func() {
						apply(r, idx, func(e *Expr, set func(*Expr)) bool { e.Runes = e.Runes[:len(e.Runes)-1]; return true })
					})
					small = append(small, func() {
						apply(r, idx, func(e *Expr, set func(*Expr)) bool { e.Runes = e.Runes[1:]; return true })
					})
				}
				if e.CI {
					small = append(small, func() {
						apply(r, idx, func(e *Expr, set func(*Expr)) bool { e.CI = false; return true })
					})
				}
				if len(e.Runes) == 1 && e.Runes[0] != 'a' {
					small = append(small, func() {
						apply(r, idx, func(e *Expr, set func(*Expr)) bool { e.Runes = []rune{'a'}; return true })
					})
				}
			case KClass:
				if len(e.Items) > 0 {
					small = append(small, func() {
						apply(r, idx, func(e *Expr, set func(*Expr)) bool {
							set(&Expr{K: KLit, Runes: []rune{e.Items[0].Lo}})
							return !e.Neg
						})
					})
				}
				if e.Neg {
					small = append(small, func() {
						apply(r, idx, func(e *Expr, set func(*Expr)) bool { e.Neg = false; return true })
					})
				}
				if len(e.Items) > 1 {
					small = append(small, func() {
						apply(r, idx, func(e *Expr, set func(*Expr)) bool { e.Items = e.Items[:len(e.Items)-1]; return true })
					})
					small = append(small, func() {
						apply(r, idx, func(e *Expr, set func(*Expr)) bool { e.Items = e.Items[1:]; return true })
					})
				}
				if e.CI {
					small = append(small, func() {
						apply(r, idx, func(e *Expr, set func(*Expr)) bool { e.CI = false; return true })
					})
				}
			case KRef:
				mid = append(mid, func() {
					apply(r, idx, func(e *Expr, set func(*Expr)) bool { set(Lit("a")); return true })
				})
			case KAct:
				if e.Wrap {
					small = append(small, func() {
						apply(r, idx, func(e *Expr, set func(*Expr)) bool { e.Wrap = false; return true })
					})
				}
				small = append(small, func() {
					apply(r, idx, func(e *Expr, set func(*Expr)) bool { set(&Expr{K: KEmpty}); return true })
				})
			case KPred, KState:
				small = append(small, func() {
					apply(r, idx, func(e *Expr, set func(*Expr)) bool { set(&Expr{K: KEmpty}); return true })
				})
			case KDot:
				small = append(small, func() {
					apply(r, idx, func(e *Expr, set func(*Expr)) bool { set(Lit("a")); return true })
				})
			}
		})
	}
	for _, f := range big {
		f()
	}
	for _, f := range mid {
		f()
	}
	for _, f := range small {
		f()
	}
	return out
}
