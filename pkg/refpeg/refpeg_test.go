package refpeg

import (
	"testing"

	"verif/pkg/gram"
)

func g1(body *gram.Expr, more ...*gram.Expr) *gram.Grammar {
	g := &gram.Grammar{Rules: []*gram.Rule{{Name: "R0", Body: body}}}
	for i, m := range more {
		g.Rules = append(g.Rules, &gram.Rule{Name: "R" + string(rune('1'+i)), Body: m})
	}
	g.Number()
	return g
}

func accepts(t *testing.T, g *gram.Grammar, in string, wantOK bool, wantEnd int) {
	t.Helper()
	r := Run(g, 0, []rune(in), 100000)
	if r.OK != wantOK || (wantOK && r.End != wantEnd) {
		t.Errorf("%q: got ok=%v end=%d, want ok=%v end=%d\n%s", in, r.OK, r.End, wantOK, wantEnd, g)
	}
}

// The examples of docs/peg-file-syntax.md and the textbook PEG behaviours.
func TestDocumentedExamples(t *testing.T) {
	lit, seq, alt := gram.Lit, gram.Seq, gram.Alt
	star := func(e *gram.Expr) *gram.Expr { return gram.Un(gram.KStar, e) }
	plus := func(e *gram.Expr) *gram.Expr { return gram.Un(gram.KPlus, e) }
	opt := func(e *gram.Expr) *gram.Expr { return gram.Un(gram.KOpt, e) }
	not := func(e *gram.Expr) *gram.Expr { return gram.Un(gram.KNot, e) }
	and := func(e *gram.Expr) *gram.Expr { return gram.Un(gram.KAnd, e) }

	// specific <- 'a'* 'bc'+ 'de'?   matches "aaabcbcde"
	spec := g1(seq(star(lit("a")), plus(lit("bc")), opt(lit("de"))))
	accepts(t, spec, "aaabcbcde", true, 9)
	accepts(t, spec, "bc", true, 2)
	accepts(t, spec, "aaade", false, 0)

	// prioritized <- 'a' 'a'* / 'bc'+ / 'de'?   matches "aaaa", "bcbc", "de", ""
	prio := g1(alt(seq(lit("a"), star(lit("a"))), plus(lit("bc")), opt(lit("de"))))
	accepts(t, prio, "aaaa", true, 4)
	accepts(t, prio, "bcbc", true, 4)
	accepts(t, prio, "de", true, 2)
	accepts(t, prio, "", true, 0)
	accepts(t, prio, "x", true, 0)

	// insensitive <- "abc"
	ci := lit("abc")
	ci.CI = true
	accepts(t, g1(ci), "ABc", true, 3)
	accepts(t, g1(ci), "abd", false, 0)
	accepts(t, g1(lit("abc")), "Abc", false, 0)

	// class <- [a-z], inverse <- [^a-z], insensitive <- [[A-Z]]
	accepts(t, g1(gram.Class(false, gram.Item{Lo: 'a', Hi: 'z'})), "q", true, 1)
	accepts(t, g1(gram.Class(false, gram.Item{Lo: 'a', Hi: 'z'})), "Q", false, 0)
	accepts(t, g1(gram.Class(true, gram.Item{Lo: 'a', Hi: 'z'})), "Q", true, 1)
	accepts(t, g1(gram.Class(true, gram.Item{Lo: 'a', Hi: 'z'})), "q", false, 0)
	accepts(t, g1(gram.Class(true, gram.Item{Lo: 'a', Hi: 'z'})), "", false, 0)
	cc := gram.Class(false, gram.Item{Lo: 'A', Hi: 'Z'})
	cc.CI = true
	accepts(t, g1(cc), "q", true, 1)
	accepts(t, g1(cc), "Q", true, 1)
	accepts(t, g1(cc), "1", false, 0)

	// first <- . !.
	accepts(t, g1(seq(gram.Dot(), not(gram.Dot()))), "x", true, 1)
	accepts(t, g1(seq(gram.Dot(), not(gram.Dot()))), "xy", false, 0)
	accepts(t, g1(seq(gram.Dot(), not(gram.Dot()))), "世", true, 1)

	// lookAhead <- &rule1 rule2 ; inverse <- !rule1 rule2
	accepts(t, g1(seq(and(gram.Ref(1)), gram.Ref(2)), lit("ab"), seq(lit("a"), gram.Dot())), "ab", true, 2)
	accepts(t, g1(seq(and(gram.Ref(1)), gram.Ref(2)), lit("ab"), seq(lit("a"), gram.Dot())), "ac", false, 0)
	accepts(t, g1(seq(not(gram.Ref(1)), gram.Ref(2)), lit("ab"), seq(lit("a"), gram.Dot())), "ac", true, 2)

	// ordered choice does not backtrack into a committed alternative; repetition is possessive
	accepts(t, g1(seq(alt(lit("a"), lit("ab")), lit("c"))), "abc", false, 0)
	accepts(t, g1(seq(star(lit("a")), lit("a"))), "aaa", false, 0)

	// guarded recursion: E <- '(' E ')' / 'x'
	e := g1(alt(seq(lit("("), gram.Ref(0), lit(")")), lit("x")))
	accepts(t, e, "((x))", true, 5)
	accepts(t, e, "((x)", false, 0)
}

func TestRecordsAndTrace(t *testing.T) {
	lit, seq := gram.Lit, gram.Seq
	capt := func(e *gram.Expr) *gram.Expr { return gram.Un(gram.KCap, e) }
	// R0 <- (<'a'> {a0} 'x' / <'a' 'b'> {a1}) R1 ; R1 <- 'c'
	g := g1(seq(gram.Alt(seq(capt(lit("a")), gram.Act(), lit("x")), seq(capt(seq(lit("a"), lit("b"))), gram.Act())), gram.Ref(1)), lit("c"))
	r := Run(g, 0, []rune("abc"), 1000)
	if !r.OK || r.End != 3 {
		t.Fatalf("got %+v", r)
	}
	want := "PegText:0:2 Action1:2:2 R1:2:3 R0:0:3"
	got := ""
	for i, tk := range Tokens(r.Root) {
		if i > 0 {
			got += " "
		}
		got += tk.String()
	}
	if got != want {
		t.Errorf("tokens %q, want %q", got, want)
	}
	tr := ExecTrace(r.Root, []rune("abc"))
	if len(tr) != 1 || tr[0].ID != 1 || tr[0].Text != "ab" || tr[0].B != 0 || tr[0].E != 2 {
		t.Errorf("exec trace %+v", tr)
	}
	// execution order sees the action of the failed branch too, with the capture completed there
	if len(r.XTrace) != 2 || r.XTrace[0].ID != 0 || r.XTrace[0].Text != "a" || r.XTrace[1].Text != "ab" {
		t.Errorf("execution-order trace %+v", r.XTrace)
	}
	if r.Stats.DiscardedCaptures != 1 {
		t.Errorf("discarded captures %d, want 1", r.Stats.DiscardedCaptures)
	}
	tree := PrintTree(Tree(r.Root), []rune("abc"))
	if tree != "R0 \"abc\"\n PegText \"ab\"\n R1 \"c\"\n" {
		t.Errorf("tree %q", tree)
	}
	// error token: first non-empty record that reached the furthest end
	r = Run(g, 0, []rune("abd"), 1000)
	if r.OK || r.ErrTok == nil || r.ErrTok.String() != "PegText:0:2" {
		t.Errorf("error token %+v", r.ErrTok)
	}
	if l, s := LineCol([]rune("a\nbc"), 3); l != 2 || s != 2 {
		t.Errorf("LineCol = %d,%d", l, s)
	}
}
