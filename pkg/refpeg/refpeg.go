// Package refpeg is a reference interpreter of parsing expression grammars written from
// the definition (ordered choice, greedy possessive repetition, non-consuming lookahead),
// over the verification side's own AST. It is memo-free and counts its steps.
package refpeg

import (
	"fmt"
	"strconv"
	"strings"

	"verif/pkg/gram"
)

// Node is one record of the derivation: a rule application, a <capture> or an action.
type Node struct {
	Name string
	B, E int
	Kids []*Node
}

type Tok struct {
	Name string `json:"n"`
	B    int    `json:"b"`
	E    int    `json:"e"`
}

func (t Tok) String() string { return fmt.Sprintf("%s:%d:%d", t.Name, t.B, t.E) }

// Trace is one executed action with the capture visible to it.
type Trace struct {
	ID   int    `json:"id"`
	Text string `json:"text"`
	B    int    `json:"b"`
	E    int    `json:"e"`
}

type Stats struct {
	Steps               int
	Revisits            int // (rule, offset) pairs entered more than once
	RevisitSuccess      int // ... where the earlier visit had succeeded
	RevisitFailure      int // ... where the earlier visit had failed
	RevisitInLookahead  int
	DiscardedTokens     int // tokens completed and later backtracked over or dropped by lookahead
	DiscardedCaptures   int // ... of which <capture> tokens
	Completed           int // records completed during the attempt (rules and captures; bounds the token index)
	Lookaheads          int
	RestoreAfterConsume int // a backtrack point restored the position after input was consumed
	BoundaryTests       int // a class/range test within +-1 of a bound
	MultiByteConsumed   bool
}

type Result struct {
	OK     bool
	End    int
	Root   *Node // derivation tree of the entry rule (nil unless OK)
	ErrTok *Tok  // first non-empty token that reached the furthest end during the attempt (nil: none)
	// ErrTokRules: the same among rule applications only (-noast parsers record no captures)
	ErrTokRules *Tok
	XTrace      []Trace // execution-order trace of every action reached (no-AST model)
	Budget      bool    // step budget exhausted: result is not to be judged
	// Unspecified: the run tested a rune against a class whose documented meaning does not
	// settle the answer (mixed-case bounds of a case-insensitive range): not to be judged
	Unspecified bool
	Stats       Stats
}

type budgetExceeded struct{}

type interp struct {
	g      *gram.Grammar
	in     []rune
	budget int
	st     Stats
	// attempt log summary
	errTok *Tok
	// the same over rule applications only (a parser without syntax tree records no captures)
	errTokRules *Tok
	// no-AST model
	xtrace         []Trace
	xtext          string
	xb, xe         int
	visits         map[[2]int]int8 // (rule,pos) -> 1 failed, 2 succeeded
	lookaheadDepth int
	unspecified    bool
}

// Run interprets rule `entry` of g on input.
func Run(g *gram.Grammar, entry int, input []rune, budget int) (res Result) {
	it := &interp{g: g, in: input, budget: budget, visits: map[[2]int]int8{}}
	defer func() {
		if r := recover(); r != nil {
			if _, ok := r.(budgetExceeded); ok {
				res = Result{Budget: true, Stats: it.st}
				return
			}
			panic(r)
		}
	}()
	var kids []*Node
	end, ok := it.rule(entry, 0, &kids)
	res.OK, res.End = ok, end
	if ok {
		res.Root = kids[0]
	}
	res.ErrTok = it.errTok
	res.ErrTokRules = it.errTokRules
	res.Unspecified = it.unspecified
	res.XTrace = it.xtrace
	res.Stats = it.st
	return res
}

func (it *interp) complete(n *Node) {
	it.st.Completed++
	// every completed record takes part in the furthest-token rule, whether it survives or not
	if n.B != n.E && (it.errTok == nil || n.E > it.errTok.E) {
		it.errTok = &Tok{n.Name, n.B, n.E}
	}
	if n.B != n.E && n.Name != "PegText" && (it.errTokRules == nil || n.E > it.errTokRules.E) {
		it.errTokRules = &Tok{n.Name, n.B, n.E}
	}
}

func countNodes(ns []*Node) int {
	c := 0
	for _, n := range ns {
		c += 1 + countNodes(n.Kids)
	}
	return c
}

func countCaps(ns []*Node) int {
	c := 0
	for _, n := range ns {
		if n.Name == "PegText" {
			c++
		}
		c += countCaps(n.Kids)
	}
	return c
}

func (it *interp) discard(ns []*Node) {
	it.st.DiscardedTokens += countNodes(ns)
	it.st.DiscardedCaptures += countCaps(ns)
}

func (it *interp) rule(i, pos int, out *[]*Node) (int, bool) {
	key := [2]int{i, pos}
	if v, seen := it.visits[key]; seen {
		it.st.Revisits++
		if v == 2 {
			it.st.RevisitSuccess++
		} else {
			it.st.RevisitFailure++
		}
		if it.lookaheadDepth > 0 {
			it.st.RevisitInLookahead++
		}
	}
	var kids []*Node
	end, ok := it.eval(it.g.Rules[i].Body, pos, &kids)
	if !ok {
		it.visits[key] = 1
		it.discard(kids)
		return pos, false
	}
	it.visits[key] = 2
	n := &Node{Name: it.g.Rules[i].Name, B: pos, E: end, Kids: kids}
	it.complete(n)
	*out = append(*out, n)
	return end, true
}

func (it *interp) restore(from, to int) {
	if from > to {
		it.st.RestoreAfterConsume++
	}
}

func (it *interp) eval(e *gram.Expr, pos int, out *[]*Node) (int, bool) {
	it.st.Steps++
	if it.st.Steps > it.budget {
		panic(budgetExceeded{})
	}
	in := it.in
	switch e.K {
	case gram.KEmpty:
		return pos, true
	case gram.KLit:
		p := pos
		for _, l := range e.Runes {
			if p >= len(in) || !gram.MatchLitRune(l, in[p], e.CI) {
				it.restore(p, pos)
				return pos, false
			}
			p++
		}
		if p > pos {
			for _, r := range in[pos:p] {
				if r >= 0x80 {
					it.st.MultiByteConsumed = true
				}
			}
		}
		return p, true
	case gram.KClass:
		if pos >= len(in) {
			return pos, false
		}
		c := in[pos]
		for _, item := range e.Items {
			if c == item.Lo-1 || c == item.Lo || c == item.Hi || c == item.Hi+1 {
				it.st.BoundaryTests++
				break
			}
		}
		m, unspec := gram.ClassMatch(e.Items, c, e.CI)
		if unspec {
			it.unspecified = true
		}
		if m != e.Neg {
			if c >= 0x80 {
				it.st.MultiByteConsumed = true
			}
			return pos + 1, true
		}
		return pos, false
	case gram.KDot:
		if pos < len(in) {
			if in[pos] >= 0x80 {
				it.st.MultiByteConsumed = true
			}
			return pos + 1, true
		}
		return pos, false
	case gram.KRef:
		return it.rule(e.Rule, pos, out)
	case gram.KAct:
		n := &Node{Name: "Action" + strconv.Itoa(e.ActID), B: pos, E: pos}
		it.xtrace = append(it.xtrace, Trace{e.ActID, it.xtext, it.xb, it.xe})
		*out = append(*out, n)
		return pos, true
	case gram.KPred:
		return pos, gram.Predicates[e.Pred].Eval(in, pos)
	case gram.KState:
		return pos, true
	case gram.KCap:
		var kids []*Node
		end, ok := it.eval(e.Kids[0], pos, &kids)
		if !ok {
			it.discard(kids)
			return pos, false
		}
		// the records made inside a capture are completed before the capture's own record
		n := &Node{Name: "PegText", B: pos, E: end, Kids: kids}
		it.complete(n)
		it.xtext, it.xb, it.xe = string(in[pos:end]), pos, end
		*out = append(*out, n)
		return end, true
	case gram.KSeq:
		mark := len(*out)
		p := pos
		for _, k := range e.Kids {
			var ok bool
			p2, ok := it.eval(k, p, out)
			if !ok {
				it.discard((*out)[mark:])
				*out = (*out)[:mark]
				it.restore(p, pos)
				return pos, false
			}
			p = p2
		}
		return p, true
	case gram.KAlt:
		for _, k := range e.Kids {
			mark := len(*out)
			if p, ok := it.eval(k, pos, out); ok {
				return p, true
			}
			*out = (*out)[:mark]
		}
		return pos, e.EmptyLast
	case gram.KOpt:
		mark := len(*out)
		if p, ok := it.eval(e.Kids[0], pos, out); ok {
			return p, true
		}
		*out = (*out)[:mark]
		return pos, true
	case gram.KStar, gram.KPlus:
		p, n := pos, 0
		for {
			mark := len(*out)
			q, ok := it.eval(e.Kids[0], p, out)
			if !ok {
				*out = (*out)[:mark]
				break
			}
			if q == p {
				panic("refpeg: repetition of an expression that matched empty (grammar is not well-formed)")
			}
			p = q
			n++
		}
		if e.K == gram.KPlus && n == 0 {
			return pos, false
		}
		return p, true
	case gram.KAnd, gram.KNot:
		it.st.Lookaheads++
		it.lookaheadDepth++
		var kids []*Node
		p, ok := it.eval(e.Kids[0], pos, &kids)
		it.lookaheadDepth--
		it.discard(kids)
		it.restore(p, pos)
		if e.K == gram.KAnd {
			return pos, ok
		}
		return pos, !ok
	}
	panic(fmt.Sprintf("refpeg: bad kind %v", e.K))
}

// ---------------------------------------------------------------------------------
// derived observations

// Tokens flattens the derivation in post-order.
func Tokens(root *Node) []Tok {
	var out []Tok
	var walk func(n *Node)
	walk = func(n *Node) {
		for _, k := range n.Kids {
			walk(k)
		}
		out = append(out, Tok{n.Name, n.B, n.E})
	}
	if root != nil {
		walk(root)
	}
	return out
}

// ExecTrace is what Execute() must do: the actions of the derivation in order, each with the
// most recently completed capture preceding it in the derivation.
func ExecTrace(root *Node, in []rune) []Trace {
	var out []Trace
	text, b, e := "", 0, 0
	for _, t := range Tokens(root) {
		switch {
		case t.Name == "PegText":
			text, b, e = string(in[t.B:t.E]), t.B, t.E
		case strings.HasPrefix(t.Name, "Action"):
			id, err := strconv.Atoi(t.Name[6:])
			if err == nil {
				out = append(out, Trace{id, text, b, e})
			}
		}
	}
	return out
}

// TNode is a node of the syntax tree: the non-empty records nested by span.
type TNode struct {
	Name string   `json:"n"`
	B    int      `json:"b"`
	E    int      `json:"e"`
	Kids []*TNode `json:"k,omitempty"`
}

// Tree builds the syntax tree from the derivation: exactly the non-empty records, each
// node's children being the records made directly inside it, in input order.
func Tree(root *Node) *TNode {
	if root == nil || root.B == root.E {
		return nil
	}
	t := &TNode{Name: root.Name, B: root.B, E: root.E}
	for _, k := range root.Kids {
		if c := Tree(k); c != nil {
			t.Kids = append(t.Kids, c)
		}
	}
	return t
}

// PrintTree renders the tree the way the syntax-tree printers are documented to: one node
// per line, indented by depth, rule name and the quoted input substring.
func PrintTree(t *TNode, in []rune) string {
	var sb strings.Builder
	var walk func(n *TNode, d int)
	walk = func(n *TNode, d int) {
		sb.WriteString(strings.Repeat(" ", d))
		sb.WriteString(n.Name)
		sb.WriteString(" ")
		sb.WriteString(strconv.Quote(string(in[n.B:n.E])))
		sb.WriteString("\n")
		for _, k := range n.Kids {
			walk(k, d+1)
		}
	}
	if t != nil {
		walk(t, 0)
	}
	return sb.String()
}

// LineCol translates a rune offset into (line, symbol): line = 1 + newlines before off;
// symbol = runes since the last newline counting the rune at off itself.
func LineCol(in []rune, off int) (line, sym int) {
	line = 1
	last := -1
	for i := 0; i < off && i < len(in); i++ {
		if in[i] == '\n' {
			line++
			last = i
		}
	}
	return line, off - last
}
