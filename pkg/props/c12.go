package props

import (
	"encoding/json"
	"fmt"
	"os"
	"reflect"
	"runtime"
	"sort"
	"strconv"
	"strings"
	"time"

	"verif/pkg/drv"
	"verif/pkg/gram"
	"verif/pkg/lab"
	"verif/pkg/lab/proto"
	"verif/pkg/refpeg"
)

// C12 — a parser can be reused: Reset with a new Buffer behaves like a fresh parser; the
// result does not depend on Size or on the unsigned type instantiating the parser.

type histReplay struct {
	Grammar string       `json:"grammar_text"`
	Case    *lab.Case    `json:"case"`
	Steps   []proto.Step `json:"steps"`
	Mode    proto.Mode   `json:"mode"`
	Variant string       `json:"variant,omitempty"` // option set of the parser ("" = default options)
}

var c12Modes = []proto.Mode{
	{},
	{U: "uint16", Size: 1},
	{U: "uint64", Size: 2},
	{U: "uint", Size: 1<<15 + 1},
	{Size: 5},
	{U: "uint16"},
	{NoMemo: true, Size: 1},
}

// clipQ quotes a string for a message, shortening very long ones (the replay file keeps all).
func clipQ(s string) string {
	if len(s) > 160 {
		return fmt.Sprintf("%q...(%d bytes)...%q", s[:60], len(s), s[len(s)-20:])
	}
	return fmt.Sprintf("%q", s)
}

func obsDiff(a, b *proto.Obs) string {
	switch {
	case a.Panic != b.Panic:
		return fmt.Sprintf("panic %q vs %q", a.Panic, b.Panic)
	case a.Unstable != b.Unstable:
		return fmt.Sprintf("%s%s", a.Unstable, b.Unstable)
	case a.NilRule != b.NilRule:
		return "entry availability differs"
	case a.OK != b.OK:
		return fmt.Sprintf("verdict ok=%v vs ok=%v", a.OK, b.OK)
	case !sameObsToks(a.Tokens, b.Tokens):
		return fmt.Sprintf("tokens [%s] vs [%s]", toksOf(a.Tokens), toksOf(b.Tokens))
	case !reflect.DeepEqual(a.Trace, b.Trace):
		return fmt.Sprintf("action trace %v vs %v", a.Trace, b.Trace)
	case a.Sprint != b.Sprint:
		return fmt.Sprintf("syntax tree %q vs %q", a.Sprint, b.Sprint)
	case a.Pretty != b.Pretty:
		return fmt.Sprintf("pretty-printed tree %q vs %q", a.Pretty, b.Pretty)
	case astString(a.AST) != astString(b.AST):
		return fmt.Sprintf("AST %s vs %s", astString(a.AST), astString(b.AST))
	case !sameErrTok(a.ErrTok, b.ErrTok):
		return fmt.Sprintf("error token %v vs %v", a.ErrTok, b.ErrTok)
	case a.Err != b.Err:
		return fmt.Sprintf("error message %q vs %q", a.Err, b.Err)
	}
	return ""
}

// buildHistories derives the biased histories of a case: fail->succeed, long->short->long,
// repeated identical steps, plus the rapid-drawn ones.
func buildHistories(cs *lab.Case, long int) [][]proto.Step {
	var out [][]proto.Step
	for e := range cs.G.Rules {
		var acc, rej, rejTok []string
		for _, in := range cs.Inputs {
			if len(in) > 200 {
				continue
			}
			r := refpeg.Run(cs.G, e, []rune(string(in)), 50000)
			switch {
			case r.Budget:
			case r.OK:
				acc = append(acc, string(in))
			case r.ErrTok != nil:
				rejTok = append(rejTok, string(in))
			default:
				rej = append(rej, string(in))
			}
		}
		sort.SliceStable(acc, func(i, j int) bool { return len(acc[i]) > len(acc[j]) })
		st := func(in string) proto.Step { return proto.Step{Entry: e, Input: proto.QStr(in)} }
		if len(acc) >= 2 && len(rejTok) > 0 {
			long, short := acc[0], acc[len(acc)-1]
			out = append(out, []proto.Step{st(rejTok[0]), st(long), st(short), st(rejTok[len(rejTok)-1]), st(short), st(long), st(long)})
		} else if len(acc) > 0 && len(rej)+len(rejTok) > 0 {
			bad := append(append([]string{}, rejTok...), rej...)[0]
			out = append(out, []proto.Step{st(bad), st(acc[0]), st(bad), st(acc[len(acc)-1]), st(acc[0])})
		}
	}
	out = append(out, cs.Hist...)
	// a long life: hundreds (thorough: tens of thousands) of unreported parses, then the
	// usual comparison with fresh instances - whatever counts Resets or parses must not wrap
	if cs.ID%4 == 1 && len(cs.Inputs) >= 3 {
		// Two long texts far apart, with a fixed number of parses of short texts in between:
		// whatever the long parse left behind at far offsets is not touched by the short ones
		// and must still be gone when the other long text arrives. The distances are the
		// periods of 8- and 16-bit counters, and their neighbours.
		ins := append([]proto.QStr{}, cs.Inputs...)
		sort.SliceStable(ins, func(i, j int) bool { return len(ins[i]) > len(ins[j]) })
		var longs []proto.QStr
		for _, in := range ins {
			if len(in) <= 60 && len(longs) < 2 {
				longs = append(longs, in)
			}
		}
		short := ins[len(ins)-1]
		if len(longs) == 2 && len(short) < len(longs[1]) {
			gaps := []int{255, 256, 257}
			if long > 1000 && cs.ID%16 == 1 {
				// (one case in sixteen: a history of 131 000 parses under seven set-ups)
				gaps = append(gaps, 65535, 65536)
			}
			for _, gap := range gaps {
				var h []proto.Step
				reps := 3
				if gap > 1000 {
					reps = 1
				}
				for rep := 0; rep < reps; rep++ {
					h = append(h, proto.Step{Entry: 0, Input: longs[rep%2]})
					for i := 0; i < gap-1; i++ {
						h = append(h, proto.Step{Entry: i % len(cs.G.Rules), Input: short, Quiet: true})
					}
				}
				h = append(h, proto.Step{Entry: 0, Input: longs[1]})
				out = append(out, h)
			}
		}
	}
	// the largest input that still fits a 16-bit instance: 65535 runes (plus the sentinel),
	// and one less; positions near the end need every bit of the type
	if cs.ID%4 == 0 && len(cs.Inputs) > 0 {
		body := []rune(string(cs.Inputs[0]))
		for _, in := range cs.Inputs {
			if r := refpeg.Run(cs.G, 0, []rune(string(in)), 20000); r.OK && r.End > 0 && r.End == len([]rune(string(in))) {
				body = []rune(string(in))
				break
			}
		}
		if len(body) == 0 {
			body = []rune("a")
		}
		var big []rune
		for len(big) < 65535 {
			big = append(big, body...)
		}
		// the token index has the same type: keep to parses that complete fewer records than
		// the type can count (the statement speaks of the input fitting, not of the token count)
		// The tree printers copy the whole input once per node (quadratic, but no property
		// speaks of speed): keep to derivations small enough for that to take well under a second.
		if r := refpeg.Run(cs.G, 0, big[:65535], 3000000); r.Budget || r.Stats.Completed > 60000 || len(refpeg.Tokens(r.Root)) > 3000 {
			big = nil
		}
		if big != nil {
			out = append(out, []proto.Step{
				{Entry: 0, Input: proto.QStr(string(big[:65535]))},
				{Entry: 0, Input: proto.QStr(string(body))},
				{Entry: 0, Input: proto.QStr(string(big[:65534]))},
			})
		}
	}
	// deep right recursion: a list of several hundred items keeps input, token count and tree
	// small, while the sub-trees a packrat table remembers (one per suffix of the list) add up
	// to far more records than a 16-bit integer counts. Whatever a parser stores per memoised
	// sub-tree must not be sized by the instantiating type.
	{
		if big, body := pumpRecursive(cs); big != "" {
			out = append(out, []proto.Step{
				{Entry: 0, Input: proto.QStr(big)},
				{Entry: 0, Input: proto.QStr(body)},
				{Entry: 0, Input: proto.QStr(big)},
			})
		}
	}
	// a history that switches the entry rule between steps
	if len(cs.G.Rules) >= 2 && len(cs.Inputs) >= 2 {
		var mixed []proto.Step
		for i := 0; i < 6 && i < len(cs.Inputs); i++ {
			mixed = append(mixed, proto.Step{Entry: i % len(cs.G.Rules), Input: cs.Inputs[(i*7)%len(cs.Inputs)]})
		}
		out = append(out, mixed)
	}
	return out
}

// nodeDepth is the height of a derivation tree.
func nodeDepth(n *refpeg.Node) int {
	type fr struct {
		n *refpeg.Node
		d int
	}
	best := 0
	st := []fr{{n, 1}}
	for len(st) > 0 {
		f := st[len(st)-1]
		st = st[:len(st)-1]
		if f.n == nil {
			continue
		}
		if f.d > best {
			best = f.d
		}
		for _, k := range f.n.Kids {
			st = append(st, fr{k, f.d + 1})
		}
	}
	return best
}

// pumpRecursive looks for an accepted input of the first rule that begins with a period u
// (u^3 v is accepted as u v is) whose repetition deepens the derivation (recursion, not a
// loop), and returns u^k v with k in the hundreds together with the input it came from. The
// memo-free reference must decide it within a small step budget, so every parser mode can.
func pumpRecursive(cs *lab.Case) (big, body string) {
	full := func(in []rune, budget int) (refpeg.Result, bool) {
		r := refpeg.Run(cs.G, 0, in, budget)
		return r, !r.Budget && !r.Unspecified && r.OK && r.End == len(in)
	}
	rep := func(head, u, tail []rune, k int) []rune {
		b := append([]rune{}, head...)
		for i := 0; i < k; i++ {
			b = append(b, u...)
		}
		return append(b, tail...)
	}
	for _, q := range cs.Inputs {
		in := []rune(string(q))
		if len(in) < 1 || len(in) > 16 {
			continue
		}
		r0, ok := full(in, 20000)
		if !ok {
			continue
		}
		d0 := nodeDepth(r0.Root)
		// a period is a piece of the accepted text, possibly followed by a separator the
		// sample happens not to contain (a one-item list has none)
		for i := 0; i < len(in); i++ {
			for j := i + 1; j <= len(in) && j <= i+4; j++ {
				for _, sep := range []string{"", ",", " "} {
					u := append(append([]rune{}, in[i:j]...), []rune(sep)...)
					r3, ok := full(rep(in[:i], u, in[i:], 3), 40000)
					if !ok || nodeDepth(r3.Root) < d0+2 {
						continue
					}
					for _, k := range []int{700, 450} {
						if k*len(u) > 5000 {
							continue
						}
						b := rep(in[:i], u, in[i:], k)
						r, ok := full(b, 400000)
						if !ok || r.Stats.Completed > 20000 || len(refpeg.Tokens(r.Root)) > 3000 || nodeDepth(r.Root) < k {
							continue
						}
						return string(b), string(in)
					}
				}
			}
		}
	}
	if os.Getenv("VERIF_DEBUG_PUMP") != "" && cs.Profile == "listy" {
		fmt.Fprintf(os.Stderr, "---- no pump for\n%s\ninputs %q\n", cs.G.String(), cs.Inputs)
	}
	return "", ""
}

func histString(cs *lab.Case, h []proto.Step) string {
	var steps []string
	for _, s := range h {
		st := fmt.Sprintf("%s(%s)", cs.G.Rules[s.Entry].Name, clipQ(string(s.Input)))
		if s.Again != nil && *s.Again >= 0 {
			st += fmt.Sprintf(" then Parse(%s) without Reset", cs.G.Rules[*s.Again].Name)
		}
		steps = append(steps, st)
	}
	return strings.Join(steps, "; ")
}

// effEntry is the rule whose result a step observes: the second call's when there is one.
func effEntry(s proto.Step) int {
	if s.Again != nil && *s.Again >= 0 {
		return *s.Again
	}
	return s.Entry
}

type histEval struct {
	what    string
	mode    proto.Mode
	step    int
	variant string
}

// evalHistories runs the histories of the cases on long-lived instances in every mode and
// compares each step with a fresh default instance given that input alone.
func evalHistories(c *drv.Ctx, cases []*lab.Case, hists [][][]proto.Step, modes []proto.Mode, stats bool, variant ...string) (res [][]*histEval, err error) {
	v := lab.V0
	if len(variant) > 0 && variant[0] != "" {
		v = variantByName(variant[0])
	}
	l, err := lab.Build(c, cases, []lab.Variant{v}, lab.Options{AllU: v.Name == "v0"})
	if err != nil {
		return nil, err
	}
	defer l.Close()
	type key struct {
		ci    int
		entry int
		in    string
	}
	fresh := map[key]int{}
	var reqs []proto.Req
	for ci, cs := range cases {
		name := fmt.Sprintf("g%d%s", cs.ID, v.Name)
		if !l.Runnable(name) {
			continue
		}
		for _, h := range hists[ci] {
			for _, s := range h {
				k := key{ci, effEntry(s), string(s.Input)}
				if _, ok := fresh[k]; !ok {
					fresh[k] = len(reqs)
					reqs = append(reqs, proto.Req{Kind: "run", Pkg: name, Entry: effEntry(s), Input: s.Input, Modes: []proto.Mode{{}}})
				}
			}
		}
	}
	type hr struct{ ci, hi, mi int }
	var hrefs []hr
	nFresh := len(reqs)
	for ci, cs := range cases {
		name := fmt.Sprintf("g%d%s", cs.ID, v.Name)
		if !l.Runnable(name) {
			continue
		}
		for hi, h := range hists[ci] {
			for mi, m := range modes {
				reqs = append(reqs, proto.Req{Kind: "hist", Pkg: name, Steps: h, Modes: []proto.Mode{m}})
				hrefs = append(hrefs, hr{ci, hi, mi})
			}
		}
	}
	outs := l.Run(reqs, runtime.NumCPU(), 30*time.Second)
	res = make([][]*histEval, len(cases))
	for ci := range cases {
		res[ci] = make([]*histEval, len(hists[ci]))
	}
	for i, ref := range hrefs {
		o := outs[nFresh+i]
		h := hists[ref.ci][ref.hi]
		m := modes[ref.mi]
		if o.Hang {
			c.Inconclusive = "a history request hit the watchdog"
			if os.Getenv("VERIF_DEBUG") != "" {
				fmt.Fprintf(os.Stderr, "---- hang (cpu %.0fs) mode %s history %v\n%s\n", o.Diverged, modeKey(m), histString(cases[ref.ci], h), cases[ref.ci].G.String())
			}
			continue
		}
		if o.Died != "" || o.Resp.Err != "" {
			if res[ref.ci][ref.hi] == nil {
				res[ref.ci][ref.hi] = &histEval{what: "worker died while running the history: " + firstLine(o.Died+o.Resp.Err), mode: m}
			}
			continue
		}
		for si, s := range h {
			if si >= len(o.Resp.Obs) {
				break
			}
			if s.Quiet {
				continue
			}
			fo := outs[fresh[key{ref.ci, effEntry(s), string(s.Input)}]]
			if len(fo.Resp.Obs) == 0 {
				continue
			}
			a, b := &o.Resp.Obs[si], &fo.Resp.Obs[0]
			if stats {
				c.Stats.Eval()
			}
			d := obsDiff(a, b)
			if s.Again != nil && *s.Again >= 0 && !a.OK && !b.OK && a.Panic == "" {
				// a second Parse without Reset keeps the furthest token of the first attempt:
				// only verdict, tokens, trace and tree are comparable with a fresh parse
				d = ""
			}
			if d != "" && res[ref.ci][ref.hi] == nil {
				res[ref.ci][ref.hi] = &histEval{what: fmt.Sprintf("step %d (entry %s, input %s) on a reused instance [%s] differs from a fresh parser: %s", si, cases[ref.ci].G.Rules[s.Entry].Name, clipQ(string(s.Input)), modeKey(m), clip(d, 600)), mode: m, step: si}
			}
		}
	}
	return res, nil
}

func histNT(cs *lab.Case, h []proto.Step) (nt bool, classes []string) {
	failThenOK, longShort, repeated := false, false, false
	memoSteps := 0
	var prev *refpeg.Result
	seen := map[string]bool{}
	prevLen := -1
	for _, s := range h {
		r := refpeg.Run(cs.G, s.Entry, []rune(string(s.Input)), 50000)
		if prev != nil && !prev.OK && r.OK {
			failThenOK = true
		}
		if prevLen > len(s.Input) && prevLen >= 0 {
			longShort = true
		}
		k := fmt.Sprint(s.Entry, "/", string(s.Input))
		if seen[k] {
			repeated = true
		}
		seen[k] = true
		if r.Stats.Revisits > 0 {
			memoSteps++
		}
		prevLen = len(s.Input)
		rr := r
		prev = &rr
	}
	if failThenOK {
		classes = append(classes, "nt_fail_then_succeed")
	}
	if longShort {
		classes = append(classes, "nt_long_then_short")
	}
	if repeated {
		classes = append(classes, "nt_repeated_identical_input")
	}
	if memoSteps >= 2 {
		classes = append(classes, "nt_memo_hits_in_2plus_steps")
	}
	if len(h) == 3 && len(h[0].Input) >= 400 && len(h[0].Input) <= 6000 && h[0].Input == h[2].Input {
		classes = append(classes, "deep_recursion_memo_volume_over_16_bits")
	}
	return failThenOK && longShort || repeated && (failThenOK || longShort), classes
}

func runC12(c *drv.Ctx) error {
	chunks := c.Pick(1, 6)
	firstID := 0
	for chunk := 0; chunk < chunks && len(c.Violations) == 0; chunk++ {
		rejected := 0
		o := lab.CollectOpts{N: c.Pick(40, 120), Profiles: []string{"backtracky", "erry", "actiony", "deep", "plain", "listy"}, Inputs: 24, Hostile: true,
			Histories: 2, FirstID: firstID, Rejected: &rejected, Long: chunk%2 == 1}
		cases := lab.Collect(drv.ShardSeed(c.Seed, "lab-C12", chunk), o)
		firstID += len(cases)
		hists := make([][][]proto.Step, len(cases))
		for i, cs := range cases {
			hists[i] = buildHistories(cs, c.Pick(300, 70000))
			c.Stats.Class("profile_" + cs.Profile)
		}
		res, err := evalHistories(c, cases, hists, c12Modes, true)
		if err != nil {
			return err
		}
		for ci, cs := range cases {
			for hi, h := range hists[ci] {
				nt, classes := histNT(cs, h)
				var parts []string
				for _, s := range h {
					parts = append(parts, fmt.Sprint(s.Entry, "/", string(s.Input)))
				}
				if nt && c.Stats.Nontrivial(drv.Hash(cs.G.String(), strings.Join(parts, "|"))) {
					for _, k := range classes {
						c.Stats.Class(k)
					}
					if cs.G.Size() <= 30 && len(h) <= 7 {
						var steps []string
						for _, s := range h {
							steps = append(steps, fmt.Sprintf("%s(%q)", cs.G.Rules[s.Entry].Name, string(s.Input)))
						}
						c.Stats.Sample(map[string]any{"grammar": strings.Split(strings.TrimSpace(cs.G.String()), "\n"), "history": steps, "modes": len(c12Modes)})
					}
				}
				if ev := res[ci][hi]; ev != nil && len(c.Violations) == 0 {
					v := shrinkHist(c, "C12", cs, h, ev)
					c.AddViolation(*v)
				}
			}
		}
		// the same histories on the parser generated with -noast: no tree, no memo table, but
		// the captured text and the user's state are the parser's too, and Reset starts afresh
		if len(c.Violations) == 0 {
			nh := make([][][]proto.Step, len(cases))
			for i, cs := range cases {
				if cs.G.Count(gram.KAct) == 0 {
					continue
				}
			hist:
				for _, h := range hists[i] {
					if len(h) > 12 {
						continue
					}
					for _, st := range h {
						if len(st.Input) > 200 {
							continue hist
						}
						if r := refpeg.Run(cs.G, st.Entry, []rune(string(st.Input)), 20000); r.Budget {
							continue hist
						}
					}
					nh[i] = append(nh[i], h)
				}
			}
			resN, err := evalHistories(c, cases, nh, []proto.Mode{{}, {Size: 5}}, true, "n0")
			if err != nil {
				return err
			}
			for ci, cs := range cases {
				for hi, h := range nh[ci] {
					c.Stats.Class("history_on_noast_parser")
					if ev := resN[ci][hi]; ev != nil && len(c.Violations) == 0 {
						ev.variant = "n0"
						ev.what = "[-noast] " + ev.what
						c.AddViolation(*shrinkHist(c, "C12", cs, h, ev))
					}
				}
			}
		}
	}
	c.Stats.Extra["modes"] = func() []string {
		var s []string
		for _, m := range c12Modes {
			s = append(s, modeKey(m))
		}
		return s
	}()
	return nil
}

func shrinkHist(c *drv.Ctx, prop string, cs *lab.Case, h []proto.Step, ev *histEval) *drv.Violation {
	deadline := time.Now().Add(time.Duration(c.Pick(60, 180)) * time.Second)
	cc := *cs
	cc.Hist = nil
	cur := &histReplay{Case: &cc, Steps: h[:ev.step+1], Mode: ev.mode, Variant: ev.variant}
	what := ev.what
	size := func(r *histReplay) int {
		n := r.Case.G.Size() * 8
		for _, s := range r.Steps {
			n += 4 + len(s.Input)
		}
		return n
	}
	for rounds := 0; rounds < 30 && time.Now().Before(deadline); rounds++ {
		var cands []*histReplay
		// keep only the tail; drop chunks; drop one step (never the last)
		n := len(cur.Steps)
		for _, k := range []int{1, 2, 3} {
			if k < n {
				cands = append(cands, &histReplay{Case: cur.Case, Steps: cur.Steps[n-k:], Mode: cur.Mode, Variant: cur.Variant})
			}
		}
		for size := (n - 1) / 2; size >= 2; size /= 2 {
			for lo := 0; lo+size <= n-1; lo += size {
				st := append(append([]proto.Step{}, cur.Steps[:lo]...), cur.Steps[lo+size:]...)
				cands = append(cands, &histReplay{Case: cur.Case, Steps: st, Mode: cur.Mode, Variant: cur.Variant})
			}
		}
		for i := 0; i+1 < len(cur.Steps) && len(cur.Steps) <= 12; i++ {
			st := append(append([]proto.Step{}, cur.Steps[:i]...), cur.Steps[i+1:]...)
			cands = append(cands, &histReplay{Case: cur.Case, Steps: st, Mode: cur.Mode, Variant: cur.Variant})
		}
		// shorten inputs
		for i, s := range cur.Steps {
			for _, in := range inputReductions(string(s.Input)) {
				st := append([]proto.Step{}, cur.Steps...)
				st[i].Input = proto.QStr(in)
				cands = append(cands, &histReplay{Case: cur.Case, Steps: st, Mode: cur.Mode, Variant: cur.Variant})
				if len(cands) > 40 {
					break
				}
			}
		}
		if cur.Mode != (proto.Mode{}) {
			cands = append(cands, &histReplay{Case: cur.Case, Steps: cur.Steps, Mode: proto.Mode{}, Variant: cur.Variant})
		}
		// grammar reductions keep every entry used by the history
		for _, r := range gram.Reductions(cur.Case.G, 0) {
			if len(r.G.Rules) != len(cur.Case.G.Rules) {
				continue // entries are indices: keep the rule list stable
			}
			g2 := *cur.Case
			g2.G = r.G
			cands = append(cands, &histReplay{Case: &g2, Steps: cur.Steps, Mode: cur.Mode, Variant: cur.Variant})
			if len(cands) > 90 {
				break
			}
		}
		if len(cands) == 0 {
			break
		}
		var cases []*lab.Case
		var hists [][][]proto.Step
		for i, cd := range cands {
			x := *cd.Case
			x.ID = i
			cases = append(cases, &x)
			hists = append(hists, [][]proto.Step{cd.Steps})
		}
		best := -1
		bestWhat := ""
		// candidates may use different modes: evaluate per distinct mode
		byMode := map[proto.Mode][]int{}
		for i, cd := range cands {
			byMode[cd.Mode] = append(byMode[cd.Mode], i)
		}
		for m, idxs := range byMode {
			var cs2 []*lab.Case
			var hs2 [][][]proto.Step
			for _, i := range idxs {
				cs2 = append(cs2, cases[i])
				hs2 = append(hs2, hists[i])
			}
			res, err := evalHistories(c, cs2, hs2, []proto.Mode{m}, false, cur.Variant)
			if err != nil {
				break
			}
			for k, i := range idxs {
				if res[k][0] != nil && (best < 0 || size(cands[i]) < size(cands[best])) {
					best, bestWhat = i, res[k][0].what
				}
			}
		}
		if best < 0 || size(cands[best]) >= size(cur) {
			break
		}
		cur, what = cands[best], bestWhat
	}
	cur.Grammar = lab.Render(cur.Case, "g", false)
	var steps []string
	for _, s := range cur.Steps {
		st := fmt.Sprintf("%s(%s)", cur.Case.G.Rules[s.Entry].Name, clipQ(string(s.Input)))
		if s.Again != nil && *s.Again >= 0 {
			st += fmt.Sprintf(" then Parse(%s) without Reset", cur.Case.G.Rules[*s.Again].Name)
		}
		steps = append(steps, st)
	}
	if len(steps) > 24 {
		steps = append(append(append([]string{}, steps[:4]...), fmt.Sprintf("... %d more steps ...", len(steps)-12)), steps[len(steps)-8:]...)
	}
	opt := ""
	if cur.Variant != "" && cur.Variant != "v0" {
		opt = " options " + strconv.Quote(variantFlags(cur.Variant))
	}
	desc := fmt.Sprintf("%s\n--- minimal history [%s]%s: %s ---\n%s", what, modeKey(cur.Mode), opt, strings.Join(steps, "; "), strings.TrimSpace(cur.Case.G.String()))
	return &drv.Violation{Property: prop, Kind: "lab-hist", What: desc, Case: cur}
}

func init() {
	drv.RegisterReplay("lab-hist", func(c *drv.Ctx, raw json.RawMessage) (string, error) {
		var r histReplay
		if err := json.Unmarshal(raw, &r); err != nil {
			return "", err
		}
		r.Case.G.Number()
		res, err := evalHistories(c, []*lab.Case{r.Case}, [][][]proto.Step{{r.Steps}}, []proto.Mode{r.Mode}, false, r.Variant)
		if err != nil {
			return "", err
		}
		if res[0][0] != nil {
			return res[0][0].what, nil
		}
		return "", nil
	})
	drv.Register("C12",
		"well-formed grammars x histories of 2-8 (entry, input) steps on ONE long-lived instance (Buffer=...; Reset(); Parse(entry); Execute/AST/Sprint/Error): constructed histories rejected(with error token) -> longest accepted -> shortest accepted -> rejected -> short -> long -> long, histories that switch the entry rule, and rapid-drawn ones with repeated inputs; each history runs under 7 instance set-ups (uint32 default; uint16+Size(0); uint64+Size(1); uint+Size(32768); Size(4); uint16; DisableMemoize+Size(0)); every step must equal, on verdict, tokens, Execute trace, tree print, AST, error token and message, what a freshly constructed default uint32 parser returns for that input alone. Non-trivial: the history contains a failing step followed by a succeeding one and a longer input followed by a shorter one, or a repeated identical input together with one of those; distinct = (grammar, history).",
		[]string{"inputs fit the instantiating type: the longest has exactly 65535 runes, the largest a uint16 instance can index together with the end-of-input sentinel", "U = uint8 is outside the statement"},
		runC12)
}

func clip(s string, n int) string {
	if len(s) > n {
		return s[:n] + "..."
	}
	return s
}
