package props

import (
	"fmt"
	"strings"
	"time"

	"verif/pkg/drv"
	"verif/pkg/gram"
	"verif/pkg/lab"
	"verif/pkg/lab/proto"
)

func replaySize(r *LabReplay) int {
	return r.Case.G.Size()*8 + len([]rune(string(r.Input))) + len(r.Case.Spell)
}

// inputReductions proposes shorter inputs.
func inputReductions(in string) []string {
	rs := []rune(in)
	var out []string
	seen := map[string]bool{in: true}
	add := func(s string) {
		if !seen[s] {
			seen[s] = true
			out = append(out, s)
		}
	}
	if len(rs) == 0 {
		return nil
	}
	add("")
	add(string(rs[:len(rs)/2]))
	add(string(rs[len(rs)/2:]))
	if len(rs) > 64 {
		add(string(rs[:16]))
		add(string(rs[:4]))
		return out
	}
	for i := range rs {
		add(string(rs[:i]) + string(rs[i+1:]))
	}
	for i, r := range rs {
		if r != 'a' && len(rs) <= 12 {
			c := append([]rune{}, rs...)
			c[i] = 'a'
			add(string(c))
		}
	}
	return out
}

// shrinkLab minimises a failing lab case by batch-evaluated reduction rounds (grammar
// reductions that preserve well-formedness, input reductions, canonical spelling) and
// materialises the result.
func shrinkLab(c *drv.Ctx, lp *LabProp, l *lab.Lab, pt *Point, m *Mismatch) *drv.Violation {
	deadline := time.Now().Add(time.Duration(c.Pick(60, 180)) * time.Second)
	cs := *pt.Case
	cs.Inputs = []proto.QStr{proto.QStr(pt.Input)}
	cs.Hist = nil
	cur := &LabReplay{Prop: lp.ID, Case: &cs, Entry: pt.Entry, Input: proto.QStr(pt.Input), Variant: m.Variant, Mode: m.Mode}
	what := m.What
	rounds, evals := 0, 0
	for time.Now().Before(deadline) && rounds < 40 {
		rounds++
		var cands []*LabReplay
		if len(cur.Case.Spell) > 0 {
			cc := *cur.Case
			cc.Spell = nil
			cands = append(cands, &LabReplay{Prop: lp.ID, Case: &cc, Entry: cur.Entry, Input: cur.Input})
		}
		for _, in := range inputReductions(string(cur.Input)) {
			cands = append(cands, &LabReplay{Prop: lp.ID, Case: cur.Case, Entry: cur.Entry, Input: proto.QStr(in)})
		}
		for _, r := range gram.Reductions(cur.Case.G, cur.Entry) {
			cc := *cur.Case
			cc.G = r.G
			cands = append(cands, &LabReplay{Prop: lp.ID, Case: &cc, Entry: r.Entry, Input: cur.Input})
		}
		if len(cands) > 96 {
			cands = cands[:96]
		}
		if len(cands) == 0 {
			break
		}
		res := evalLabCases(c, lp, cands)
		evals += len(cands)
		best := -1
		for i, ms := range res {
			if len(ms) == 0 {
				continue
			}
			if best < 0 || replaySize(cands[i]) < replaySize(cands[best]) {
				best = i
			}
		}
		if best < 0 || replaySize(cands[best]) >= replaySize(cur) {
			break
		}
		cur = cands[best]
		cur.Variant, cur.Mode = res[best][0].Variant, res[best][0].Mode
		what = res[best][0].What
	}
	cur.Grammar = lab.Render(cur.Case, "g", false)
	c.Stats.Extra["shrink_rounds"] = rounds
	c.Stats.Extra["shrink_candidates_evaluated"] = evals
	desc := fmt.Sprintf("%s\n--- minimal case (options: %q, entry %s, input %q) ---\n%s", what, variantFlags(cur.Variant),
		cur.Case.G.Rules[cur.Entry].Name, string(cur.Input), strings.TrimSpace(cur.Case.G.String()))
	return &drv.Violation{Property: lp.ID, Kind: kindLab, What: desc, Case: cur, Shape: m.Shape}
}

func variantFlags(name string) string {
	for _, v := range lab.AllVariants {
		if v.Name == name {
			return v.Flags()
		}
	}
	return name
}
