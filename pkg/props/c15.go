package props

import (
	"bytes"
	"encoding/json"
	"fmt"
	"os"
	"os/exec"
	"path/filepath"
	"regexp"
	"sort"
	"strings"
	"time"

	"pgregory.net/rapid"

	"verif/pkg/drv"
	"verif/pkg/fe"
	"verif/pkg/gram"
	"verif/pkg/lab"
)

// C15 — grammar diagnostics are exact and -strict turns them into failure.

type diagCase struct {
	G          *gram.Grammar    `json:"g"`
	Text       string           `json:"text"`
	Injections []gram.Injection `json:"injections,omitempty"`
}

var diagRe = regexp.MustCompile(`(possible infinite left recursion in rule|rule) '([^']*)'( used but not defined| defined but not used)?`)

// parseDiagnostics turns warning text into a set of "kind:rule".
func parseDiagnostics(text string) (set map[string]bool, other []string) {
	set = map[string]bool{}
	for _, line := range strings.Split(text, "\n") {
		line = strings.TrimSpace(line)
		if line == "" {
			continue
		}
		m := diagRe.FindStringSubmatch(line)
		switch {
		case m == nil:
			other = append(other, line)
		case strings.HasPrefix(m[1], "possible"):
			set["leftrec:"+m[2]] = true
		case m[3] == " used but not defined":
			set["undefined:"+m[2]] = true
		case m[3] == " defined but not used":
			set["unused:"+m[2]] = true
		default:
			other = append(other, line)
		}
	}
	return set, other
}

// expectedDiagnostics computes the exact sets and, for left recursion, the sandwich.
func expectedDiagnostics(g *gram.Grammar) (exact map[string]bool, lmin, lmax map[string]bool) {
	exact, lmin, lmax = map[string]bool{}, map[string]bool{}, map[string]bool{}
	for _, n := range g.Undefined() {
		exact["undefined:"+n] = true
	}
	reach := g.Reachable()
	for i, r := range g.Rules {
		if !reach[i] {
			exact["unused:"+r.Name] = true
		}
	}
	for i, b := range g.LeftRecursive(g.Nullable()) {
		if b {
			lmin["leftrec:"+g.Rules[i].Name] = true
		}
	}
	for i, b := range g.LeftRecursive(g.NullableMax()) {
		if b {
			lmax["leftrec:"+g.Rules[i].Name] = true
		}
	}
	return
}

var pseudoRule = regexp.MustCompile(`^(unused|undefined):(Action\d+|PegText)$`)

// judgeDiagnostics compares the diagnostics of one option set with the analysis.
func judgeDiagnostics(cs *diagCase, v lab.Variant) (what string, sandwich bool) {
	res := fe.Parse(cs.Text, v.Inline, v.Switch, v.NoAST)
	if res.Panic != "" {
		return fmt.Sprintf("[%s] front end panicked: %s", v.Flags(), res.Panic), false
	}
	if res.Err != nil {
		return fmt.Sprintf("[%s] front end rejects a syntactically valid grammar: %s", v.Flags(), firstLine(res.Err.Error())), false
	}
	res.Tree.Strict = true
	var buf bytes.Buffer
	var err error
	panicked := ""
	func() {
		defer func() {
			if r := recover(); r != nil {
				panicked = fmt.Sprint(r)
			}
		}()
		err = res.Tree.Compile("g.peg.go", v.Args(), &buf)
	}()
	dups := cs.G.Duplicates()
	if panicked != "" {
		if len(dups) > 0 {
			return fmt.Sprintf("[%s] a rule defined twice (%s) crashes the generator instead of being diagnosed: %s", v.Flags(), strings.Join(dups, ","), panicked), false
		}
		return fmt.Sprintf("[%s] generator panicked: %s", v.Flags(), panicked), false
	}
	if len(dups) > 0 {
		if err == nil {
			return fmt.Sprintf("[%s] rule %s is defined twice but generation under -strict reported nothing", v.Flags(), strings.Join(dups, ",")), false
		}
		// generation may stop at the first duplicate: one of them must be named
		for _, d := range dups {
			if strings.Contains(err.Error(), "'"+d+"'") {
				return "", false
			}
		}
		return fmt.Sprintf("[%s] rules %v are defined twice but the diagnostic names none of them: %s", v.Flags(), dups, firstLine(err.Error())), false
	}
	text := ""
	if err != nil {
		text = err.Error()
	}
	got, other := parseDiagnostics(text)
	exact, lmin, lmax := expectedDiagnostics(cs.G)
	anyUnreachable := false
	for k := range exact {
		if strings.HasPrefix(k, "unused:") {
			anyUnreachable = true
		}
	}
	for k := range got {
		if pseudoRule.MatchString(k) && anyUnreachable {
			// an action or capture inside an unreachable rule: peg names its internal
			// pseudo-rule; not a user rule, tolerated next to the real diagnostic
			delete(got, k)
		}
	}
	if len(other) > 0 {
		if strings.Contains(other[0], ".go:") {
			return fmt.Sprintf("[%s] generation of a syntactically valid grammar fails, the emitted code does not parse (a C08 defect surfacing here): %s", v.Flags(), other[0]), false
		}
		return fmt.Sprintf("[%s] unexpected message: %s", v.Flags(), other[0]), false
	}
	var missing, extra []string
	for k := range exact {
		if !got[k] {
			missing = append(missing, k)
		}
	}
	for k := range lmin {
		if !got[k] {
			missing = append(missing, k)
		}
	}
	for k := range got {
		if !exact[k] && !lmax[k] {
			extra = append(extra, k)
		}
	}
	sort.Strings(missing)
	sort.Strings(extra)
	sandwich = len(lmin) != len(lmax)
	if len(missing) > 0 || len(extra) > 0 {
		return fmt.Sprintf("[%s] diagnostics differ from the grammar analysis: missing %v, unexpected %v (reported: %s)", v.Flags(), missing, extra, strings.ReplaceAll(strings.TrimSpace(text), "\n", " | ")), sandwich
	}
	if len(exact)+len(lmin) == 0 && err != nil {
		return fmt.Sprintf("[%s] a clean grammar does not generate silently: %s", v.Flags(), firstLine(err.Error())), sandwich
	}
	return "", sandwich
}

func c15Gen(t *rapid.T, open map[string]drv.Finding) diagCase {
	_, d3 := open["empty-rule-body"]
	_, d2 := open["duplicate-rule"]
	g, inj := gram.IllFormedGrammar(t, gram.IllFormedOpts{NoEmptyBody: d3, NoDuplicate: d2})
	var spell []int
	if rapid.IntRange(0, 3).Draw(t, "spell?") == 0 {
		spell = rapid.SliceOfN(rapid.IntRange(0, 1<<12), 12, 12).Draw(t, "spell")
	}
	pr := gram.Printer{G: g, S: &gram.Spell{V: spell}}
	return diagCase{G: g, Text: pr.Text(), Injections: inj}
}

var c15Variants = []lab.Variant{lab.V0, lab.V1, lab.V2, lab.V3, lab.N0, lab.N3}

func c15Shard(c *drv.Ctx, shard, checks int) (*drv.Stats, *drv.Violation, error) {
	st := drv.NewStats()
	fnd, _ := drv.LoadFindings(c.Verif)
	open := fnd.OpenShapes("C15")
	var last *diagCase
	var lastWhat string
	guard := &drv.ShrinkGuard{Budget: time.Duration(c.Pick(30, 90)) * time.Second}
	prop := func(t *rapid.T) {
		cs := c15Gen(t, open)
		key := drv.Hash(cs.Text)
		what, known := guard.Known(key)
		if !known && guard.Expired() {
			t.Skip("shrink budget exhausted")
		}
		if !known {
			sand := false
			for _, v := range c15Variants {
				st.Eval()
				var s bool
				what, s = judgeDiagnostics(&cs, v)
				sand = sand || s
				if what != "" {
					guard.Record(key, what)
					break
				}
			}
			if sand {
				st.Class("lmin_differs_from_lmax")
			}
		}
		if what != "" {
			cp := cs
			last, lastWhat = &cp, what
			t.Fatalf("%s", what)
		}
		nt := false
		for _, in := range cs.Injections {
			st.Class("injected:" + in.Kind)
			if strings.HasPrefix(in.Kind, "leftrec") {
				for _, via := range strings.Split(in.Via, "+") {
					st.Class("leftrec_via:" + via)
					if !strings.HasPrefix(via, "plain/first") {
						nt = true
					}
				}
			} else {
				nt = true
			}
		}
		if len(cs.Injections) == 0 {
			st.Class("clean_grammar_negative_example")
			// sharp negative example: guarded recursion present
			rec := false
			for i, r := range cs.G.Rules {
				r.Body.Walk(func(e *gram.Expr) {
					if e.K == gram.KRef && e.Name == "" && e.Rule <= i {
						rec = true
					}
				})
			}
			nt = rec
		}
		if nt && st.Nontrivial(key) && len(cs.G.Rules) <= 5 {
			st.Sample(map[string]any{"grammar": strings.Split(strings.TrimSpace(cs.G.String()), "\n"), "injections": cs.Injections})
		}
	}
	res := drv.RunRapid("C15", checks, drv.ShardSeed(c.Seed, "c15", shard), time.Duration(c.Pick(30, 90))*time.Second, prop)
	if res.Failed {
		if last == nil {
			return st, nil, fmt.Errorf("rapid failed without a recorded case: %s", res.Log)
		}
		return st, &drv.Violation{Property: "C15", Kind: "diag-text", What: lastWhat + "\n--- grammar ---\n" + strings.TrimSpace(last.G.String()), Case: last}, nil
	}
	st.ClassN("rapid_checks_passed", int64(res.Passed))
	return st, nil, nil
}

// BuildPeg builds the peg command from the tree under test.
func BuildPeg(c *drv.Ctx, race bool) (string, error) {
	out := filepath.Join(c.Scratch, "peg")
	args := []string{"build"}
	if race {
		out += "-race"
		args = append(args, "-race")
	}
	if _, err := os.Stat(out); err == nil {
		return out, nil
	}
	cmd := exec.Command(c.Go, append(args, "-o", out, ".")...)
	cmd.Dir = c.Repo
	cmd.Env = append(os.Environ(), "GOFLAGS=-mod=mod", "GOPROXY=off", "GOSUMDB=off", "GOTOOLCHAIN=local", "GOWORK=off")
	if b, err := cmd.CombinedOutput(); err != nil {
		return "", fmt.Errorf("building peg: %v\n%s", err, b)
	}
	return out, nil
}

// runPeg executes the peg command in dir.
func runPeg(bin, dir string, stdin string, env []string, args ...string) (exit int, stdout, stderr string) {
	cmd := exec.Command(bin, args...)
	cmd.Dir = dir
	cmd.Env = append(os.Environ(), env...)
	cmd.Stdin = strings.NewReader(stdin)
	var so, se bytes.Buffer
	cmd.Stdout, cmd.Stderr = &so, &se
	err := cmd.Run()
	exit = 0
	if err != nil {
		if ee, ok := err.(*exec.ExitError); ok {
			exit = ee.ExitCode()
		} else {
			exit = -1
		}
	}
	return exit, so.String(), se.String()
}

// c15Process checks the -strict half at process level.
func c15Process(c *drv.Ctx, n int) error {
	bin, err := BuildPeg(c, false)
	if err != nil {
		return err
	}
	fnd, _ := drv.LoadFindings(c.Verif)
	open := fnd.OpenShapes("C15")
	var cases []diagCase
	res := drv.RunRapid("C15-process", n, drv.ShardSeed(c.Seed, "c15-process", 0), time.Second, func(t *rapid.T) {
		cases = append(cases, c15Gen(t, open))
	})
	if res.Failed {
		return fmt.Errorf("collecting cases failed: %s", res.Log)
	}
	dir := filepath.Join(c.Scratch, "c15proc")
	_ = os.MkdirAll(dir, 0o755)
	defer os.RemoveAll(dir)
	for i := range cases {
		cs := &cases[i]
		if len(cs.G.Duplicates()) > 0 {
			continue
		}
		exact, lmin, _ := expectedDiagnostics(cs.G)
		expectDiag := len(exact)+len(lmin) > 0
		file := filepath.Join(dir, fmt.Sprintf("g%d.peg", i))
		_ = os.WriteFile(file, []byte(cs.Text), 0o644)
		for _, v := range []lab.Variant{lab.V0, lab.V3, lab.N0} {
			args := append(v.Args()[1:], "-strict", "-output", filepath.Join(dir, "out.go"), file)
			exit, _, stderr := runPeg(bin, dir, "", nil, args...)
			c.Stats.Eval()
			what := ""
			switch {
			case expectDiag && exit == 0:
				what = fmt.Sprintf("peg %s exits 0 although the grammar has diagnostics %v %v", strings.Join(args[:len(args)-3], " "), sortedKeys(exact), sortedKeys(lmin))
			case !expectDiag && exit != 0:
				what = fmt.Sprintf("peg %s fails (exit %d) on a clean grammar: %s", strings.Join(args[:len(args)-3], " "), exit, firstLine(stderr))
			case !expectDiag && strings.TrimSpace(stderr) != "":
				what = fmt.Sprintf("peg %s writes to stderr for a clean grammar: %s", strings.Join(args[:len(args)-3], " "), firstLine(stderr))
			}
			if what == "" && !expectDiag {
				// without -strict a clean grammar is silent as well
				args2 := append(v.Args()[1:], "-output", filepath.Join(dir, "out.go"), file)
				exit2, _, stderr2 := runPeg(bin, dir, "", nil, args2...)
				if exit2 != 0 || strings.TrimSpace(stderr2) != "" {
					what = fmt.Sprintf("peg %s is not silent on a clean grammar (exit %d): %s", strings.Join(args2[:len(args2)-3], " "), exit2, firstLine(stderr2))
				}
			}
			if what != "" {
				c.AddViolation(drv.Violation{Property: "C15", Kind: "diag-text", What: what + "\n--- grammar ---\n" + strings.TrimSpace(cs.G.String()), Case: cs})
				return nil
			}
			if expectDiag && c.Stats.Nontrivial(drv.Hash("proc", cs.Text, v.Name)) {
				c.Stats.Class("process_level_strict_failure_observed")
			}
		}
	}
	return nil
}

func init() {
	drv.RegisterShard("c15", c15Shard)
	drv.RegisterReplay("diag-text", func(c *drv.Ctx, raw json.RawMessage) (string, error) {
		var cs diagCase
		if err := json.Unmarshal(raw, &cs); err != nil {
			return "", err
		}
		cs.G.Number()
		for _, v := range c15Variants {
			if what, _ := judgeDiagnostics(&cs, v); what != "" {
				return what, nil
			}
		}
		return "", nil
	})
	drv.Register("C15",
		"rapid-generated small grammars (<=5 base rules) with 0-3 injected defects: direct and indirect left recursion reached plainly or through ? * + & ! <> and placed first, after a nullable prefix, in a later alternative, after a non-consuming alternative or after a lookahead and an action; undefined names (also only from unreachable rules); unreachable rules and unreachable cycles; duplicate definitions; empty rule bodies; zero injections give clean negative examples with guarded recursion. For six option sets the diagnostics returned by generation are parsed into (kind, rule) pairs and compared with an independent analysis of the generator's AST (undefined = referenced-defined, unused = defined-reachable, left recursion by left-reach closure with an Lmin/Lmax sandwich where nullability of a left-recursive rule is not well defined); duplicates must be diagnosed by name without a panic; clean grammars must generate silently. A sample runs through the built peg binary: -strict exits non-zero iff there are diagnostics, clean grammars leave stderr empty. Non-trivial: a defect reached through something other than a plain first reference, or a clean grammar with recursion; distinct = grammar text.",
		[]string{
			"diagnostics naming peg's internal pseudo-rules (Action<N>, PegText) for actions inside unreachable rules are tolerated next to the real diagnostic",
			"rule count <= 8 and fan-out <= 3: peg's recursion walk is exponential in the worst case (generator bound)",
		},
		func(c *drv.Ctx) error {
			if err := drv.RunSharded(c, "c15", c.Pick(1200, 60000), c.Pick(4, 16), 30*time.Minute); err != nil || len(c.Violations) > 0 {
				return err
			}
			return c15Process(c, c.Pick(30, 300))
		})
}
