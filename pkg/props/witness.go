package props

import (
	"encoding/json"
	"fmt"
	"os"
	"path/filepath"

	"verif/pkg/drv"
	"verif/pkg/gram"
	"verif/pkg/lab"
	"verif/pkg/lab/proto"
)

// The regression witnesses of lab properties (defects of DESIGN.md 7 that were fixed, and the
// shapes that sensitivity runs showed to matter) are written as code and materialised into
// /verif/replays by `./check --tool mkwitness`.

func g(rules ...*gram.Expr) *gram.Grammar {
	gr := &gram.Grammar{Package: "g", Struct: "G"}
	for i, r := range rules {
		gr.Rules = append(gr.Rules, &gram.Rule{Name: fmt.Sprintf("R%d", i), Body: r})
	}
	gr.Number()
	return gr
}

func lit(s string) *gram.Expr        { return gram.Lit(s) }
func seq(k ...*gram.Expr) *gram.Expr { return gram.Seq(k...) }
func alt(k ...*gram.Expr) *gram.Expr { return gram.Alt(k...) }
func altE(k ...*gram.Expr) *gram.Expr {
	e := gram.Alt(k...)
	e.EmptyLast = true
	return e
}
func opt(e *gram.Expr) *gram.Expr  { return gram.Un(gram.KOpt, e) }
func star(e *gram.Expr) *gram.Expr { return gram.Un(gram.KStar, e) }
func plus(e *gram.Expr) *gram.Expr { return gram.Un(gram.KPlus, e) }
func and(e *gram.Expr) *gram.Expr  { return gram.Un(gram.KAnd, e) }
func not(e *gram.Expr) *gram.Expr  { return gram.Un(gram.KNot, e) }
func capt(e *gram.Expr) *gram.Expr { return gram.Un(gram.KCap, e) }
func rng(lo, hi rune) *gram.Expr   { return gram.Class(false, gram.Item{Lo: lo, Hi: hi}) }
func ref(i int) *gram.Expr         { return gram.Ref(i) }
func dot() *gram.Expr              { return gram.Dot() }
func act() *gram.Expr              { return gram.Act() }

type witness struct {
	Name, Prop, What string
	G                *gram.Grammar
	Entry            int
	Input            string
}

var witnesses = []witness{
	{"S1-nullable-alternative", "C02", "-switch: a failed case never fell back to a nullable alternative", g(seq(altE(seq(lit("1"), lit("x")), lit("2"), lit("3")), dot(), not(dot()))), 0, "1"},
	{"S2-choice-consumes", "C02", "-switch: first set of a choice took consumes from its last alternative only", g(seq(alt(seq(alt(opt(lit("a")), lit("b")), lit("c")), seq(lit("c"), lit("d")), lit("e"), lit("f")), not(dot()))), 0, "c"},
	{"S3-peekfor", "C02", "-switch: skip-first-check propagated through &", g(seq(alt(rng('0', '9'), seq(and(lit("x")), lit("a")), lit("b"), lit("c")), not(dot()))), 0, "a"},
	{"S3-star-index", "C02", "-switch: skip-first-check through *: index out of range", g(seq(alt(rng('0', '9'), seq(star(seq(lit("a"), lit("b"))), lit("a"), lit("c")), lit("d"), lit("e")))), 0, "abxb"},
	{"S3-peeknot", "C02", "-switch: skip-first-check propagated through !", g(alt(lit("f"), seq(not(lit("f")), lit("1")), lit("d"))), 0, "1"},
	{"S2-any-consumes", "C02", "-switch: a nullable choice in front of the leading character must keep that character in the first set", g(alt(seq(altE(lit("-"), lit("+")), plus(rng('0', '9'))), plus(rng('a', 'z')), seq(lit("("), ref(0), lit(")")))), 0, "5"},
	{"seed-optional-subset-prefix", "C13", "-switch: an optional element in front of the element the case labels come from must not cost that element its test", g(alt(seq(opt(rng('0', '2')), rng('0', '9')), plus(rng('a', 'z')), lit(" "))), 0, "1"},
	{"seed-optional-subset-prefix", "C02", "-switch: an optional element in front of the element the case labels come from must not cost that element its test", g(alt(seq(opt(rng('0', '2')), rng('0', '9')), plus(rng('a', 'z')), lit(" "))), 0, "1"},
	{"seed-class-with-repeated-member", "C02", "-switch: a class that names a member twice, at the head of a nested choice inside a case arm, must still test its character", g(alt(seq(alt(seq(gram.Class(false, gram.Item{Lo: 'a', Hi: 'c'}, gram.Item{Lo: 'b', Hi: 'b'}), lit("x")), seq(lit("d"), lit("y"))), lit("z")), seq(rng('0', '9'), lit("q")), seq(lit("e"), lit("q")), seq(lit("f"), lit("q")))), 0, "dxz"},
	{"seed-surrogate-gap-range", "C02", "-switch: case labels of a range across the surrogate gap include U+E000", g(alt(seq(rng(0xD7FF, 0xE000), lit("x")), seq(lit("a"), opt(lit("x"))), lit("b"), rng(0x2000, 0xCFFF))), 0, "\ue000x"},
	{"seed-not-rule-inlined", "C02", "-inline: !Rule needs its own save/restore when the rule is expanded in place", g(seq(not(ref(1)), lit("i"), lit("f"), lit("x"), not(dot())), seq(lit("i"), lit("f"), not(lit("x")))), 0, "ifx"},
	{"k03-query-restore", "C01", "? must restore the position after a partial match", g(seq(opt(seq(lit("a"), lit("b"))), lit("a"), lit("c"))), 0, "ac"},
	{"k02-peeknot-restore", "C01", "! must restore the position after its operand failed having consumed", g(seq(not(seq(lit("a"), lit("b"))), lit("a"), lit("c"))), 0, "ac"},
	{"seed-bare-lookahead-alternative", "C01", "a bare lookahead as a non-final alternative fails after reading a character", g(seq(lit("a"), alt(not(dot()), lit("\n")))), 0, "a\n"},
	{"R1-error-end", "C11", "the end of a non-empty error token was never translated", g(seq(ref(1), lit("x")), seq(lit("a"), lit("b"))), 0, "abc"},
	{"k11-memo-replay-maxtoken", "C11", "memo replay must not replace the first token that reached the furthest offset", g(alt(seq(ref(1), lit("x")), seq(ref(1), lit("y"))), seq(lit("a"), ref(2)), plus(lit("b"))), 0, "abbz"},
	{"C03-capture-in-failed-alternative", "C03", "a capture inside a failed alternative must not stay in the token stream", g(alt(seq(capt(lit("a")), lit("x")), seq(lit("a"), lit("y")))), 0, "ay"},
	{"C03-capture-in-lookahead", "C03", "a capture inside a lookahead must not stay in the token stream", g(seq(and(capt(lit("a"))), lit("a"), not(capt(lit("b"))), lit("c"))), 0, "ac"},
	{"C04-stale-tokens", "C04", "Execute must not see tokens of an abandoned longer branch", g(alt(seq(plus(seq(capt(lit("a")), act())), lit("x")), seq(capt(lit("a")), act(), star(lit("a")), lit("z")))), 0, "aaaz"},
	{"C05-multibyte-print", "C05", "the printer slices runes, not bytes", g(seq(ref(1), lit(","), ref(1)), plus(gram.Class(true, gram.Item{Lo: ',', Hi: ','}))), 0, "héé,wörld"},
	{"C06-memo-splice", "C06", "replaying a memoised success must restore the tokens exactly", g(alt(seq(ref(1), lit("x")), seq(ref(2), lit("y")), seq(ref(1), lit("z"))), seq(capt(lit("a")), capt(lit("a"))), seq(lit("a"), lit("a"), lit("a"))), 0, "aaz"},
}

func writeWitnesses(c *drv.Ctx) int {
	dir := filepath.Join(c.Verif, "replays")
	_ = os.MkdirAll(dir, 0o755)
	for _, w := range witnesses {
		cs := &lab.Case{G: w.G, Inputs: []proto.QStr{proto.QStr(w.Input)}}
		rp := &LabReplay{Prop: w.Prop, Case: cs, Entry: w.Entry, Input: proto.QStr(w.Input), Grammar: lab.Render(cs, "g", false)}
		b, _ := json.MarshalIndent(drv.Violation{Property: w.Prop, Kind: kindLab, What: w.What, Case: rp}, "", " ")
		p := filepath.Join(dir, fmt.Sprintf("%s-%s.json", w.Prop, w.Name))
		if err := os.WriteFile(p, append(b, '\n'), 0o644); err != nil {
			fmt.Fprintln(os.Stderr, err)
			return 2
		}
		fmt.Println("wrote", p)
	}
	return 0
}

func init() {
	drv.RegisterTool("mkwitness", func(c *drv.Ctx, args []string) int { return writeWitnesses(c) })
}
