package props

import (
	"encoding/json"
	"fmt"
	"os"
	"runtime"
	"sort"
	"strconv"
	"strings"
	"sync"
	"time"

	"verif/pkg/drv"
	"verif/pkg/gram"
	"verif/pkg/lab"
	"verif/pkg/lab/proto"
	"verif/pkg/refpeg"
)

// Point is one (grammar, entry, input) with the reference result and the observations.
type Point struct {
	Case  *lab.Case
	Entry int
	Input string
	Runes []rune
	Ref   refpeg.Result
	Obs   map[string]*proto.Obs // key: variant name + "/" + mode key
	Hang  map[string]bool
	Died  map[string]string
	// Diverged: variant -> CPU seconds the worker burnt on this point before the watchdog
	// fired (see lab.Outcome.Diverged)
	Diverged map[string]float64
}

// divergence turns the CPU-time observations of a point into mismatches. The reference
// interpreter has no memo table and decided the point within its step budget, which bounds the
// work of a correct parser; a process that burns lab.DivergeCPU seconds of its own CPU time
// on it (independent of machine load) is not slow, it does not terminate.
func divergence(pt *Point) []Mismatch {
	var ms []Mismatch
	for _, v := range sortedKeysF(pt.Diverged) {
		ms = append(ms, Mismatch{Variant: v, Mode: memoMode, Shape: "",
			What: fmt.Sprintf("parser does not terminate: the worker burnt %.0f s of CPU time on an input of %d runes that PEG semantics decide in %d steps (%s)",
				pt.Diverged[v], len(pt.Runes), pt.Ref.Stats.Steps, pt.refSummary())})
	}
	return ms
}

// instability reports observations that changed when looked at again (proto.Obs.Unstable)
// and, for lp.OrderModes, observations that depend on the order in which the accessors ran.
func instability(lp *LabProp, pt *Point) []Mismatch {
	var ms []Mismatch
	var keys []string
	for k := range pt.Obs {
		keys = append(keys, k)
	}
	sort.Strings(keys)
	for _, k := range keys {
		if o := pt.Obs[k]; o.Unstable != "" {
			ms = append(ms, Mismatch{What: o.Unstable + " [" + k + "]", Variant: strings.SplitN(k, "/", 2)[0], Mode: memoMode})
		}
	}
	for _, v := range lp.Variants {
		for _, m := range lp.OrderModes {
			tf := m
			tf.TreeFirst = true
			a, b := obsOf(pt, v.Name, m), obsOf(pt, v.Name, tf)
			if a == nil || b == nil {
				continue
			}
			if d := obsDiff(b, a); d != "" {
				ms = append(ms, Mismatch{What: "calling SprintSyntaxTree() and AST() before Tokens() and Execute() changes what is observed (tree accessors first vs last): " + d, Variant: v.Name, Mode: tf})
			}
		}
	}
	return ms
}

func sortedKeysF(m map[string]float64) []string {
	var ks []string
	for k := range m {
		ks = append(ks, k)
	}
	sort.Strings(ks)
	return ks
}

func (pt *Point) refSummary() string {
	if pt.Ref.OK {
		return fmt.Sprintf("accept, end=%d", pt.Ref.End)
	}
	return "reject"
}

func modeKey(m proto.Mode) string {
	var sb strings.Builder
	if m.NoMemo {
		sb.WriteString("nomemo")
	} else {
		sb.WriteString("memo")
	}
	if m.Size > 0 {
		fmt.Fprintf(&sb, ",size%d", m.Size-1)
	}
	if m.U != "" {
		sb.WriteString("," + m.U)
	}
	if m.TreeFirst {
		sb.WriteString(",treefirst")
	}
	if m.RawPrint {
		sb.WriteString(",rawprint")
	}
	if m.Pretty {
		sb.WriteString(",pretty")
	}
	if m.Print {
		sb.WriteString(",print")
	}
	return sb.String()
}

// Mismatch is one judged disagreement.
type Mismatch struct {
	What    string
	Variant string
	Mode    proto.Mode
	Shape   string
}

// LabProp describes one lab-based property check.
type LabProp struct {
	ID       string
	Variants []lab.Variant
	Opts     func(c *drv.Ctx) lab.CollectOpts
	Chunks   func(c *drv.Ctx) int
	AllU     bool
	// Modes returns the modes to run for a point on a variant (nil: skip).
	Modes func(c *drv.Ctx, pt *Point, v lab.Variant) []proto.Mode
	// Judge compares; it also feeds the stats (evaluations, non-trivial, classes, samples).
	Judge func(c *drv.Ctx, pt *Point, l *lab.Lab) []Mismatch
	// ReuseModes: additionally run all points of a grammar, in order, on ONE long-lived
	// default-options instance per mode (Buffer=..., Reset(), Parse) and require every step to
	// equal the fresh observation of the same mode: the property quantifies over all inputs,
	// also those given to a parser that has parsed something else before.
	ReuseModes []proto.Mode
	// ReuseVariants: the option sets whose parsers are reused (default: the first variant)
	ReuseVariants []lab.Variant
	// Retry: after a rejected Parse(entry) call Parse(other entry) again WITHOUT Reset (a
	// program trying another start rule on the same buffer) and require verdict, tokens, trace
	// and tree of that second call to equal a fresh parse of the other entry. RetryModes lists
	// the modes; with two modes the second calls are also compared with each other including
	// the error token (memo vs DisableMemoize).
	RetryModes []proto.Mode
	// OrderModes: points observed in one of these modes are also observed with the tree
	// accessors called BEFORE Tokens() and Execute(); accessors only read, so both orders must
	// observe the same (a metamorphic relation; no reference involved).
	OrderModes []proto.Mode
	// NativeFuzz: in the thorough tier, additionally run a coverage-guided `go test -fuzz`
	// campaign of this many seconds over (grammar, entry, input) for a fresh batch of grammars,
	// with the reference interpreter as the oracle inside the fuzz target.
	NativeFuzz int
	FuzzOracle string // verdict | tokens | differential (see the FuzzLab target)
	// SkipCase lets a property leave out grammars outside its quantifier.
	SkipCase func(cs *lab.Case) bool
	// NeedBase: when the default-options package does not build the property cannot be observed.
	RefBudget func(c *drv.Ctx) int
}

const kindLab = "lab-case"

// LabReplay is the materialised form of a failing lab case.
type LabReplay struct {
	Prop    string     `json:"prop"`
	Grammar string     `json:"grammar_text"`
	Case    *lab.Case  `json:"case"`
	Entry   int        `json:"entry"`
	Input   proto.QStr `json:"input"`
	Variant string     `json:"variant"`
	Mode    proto.Mode `json:"mode"`
	Expect  string     `json:"expected,omitempty"`
}

var labProps = map[string]*LabProp{}

func refBudget(c *drv.Ctx) int { return c.Pick(200000, 400000) }

// memoFreeBudget gates requests to memo-free parsers by the reference step count.
func memoFreeBudget(c *drv.Ctx) int { return c.Pick(60000, 200000) }

func computeRefs(c *drv.Ctx, cases []*lab.Case, budget int, entries func(cs *lab.Case) []int) []*Point {
	var pts []*Point
	for _, cs := range cases {
		for _, e := range entries(cs) {
			for _, in := range cs.Inputs {
				pts = append(pts, &Point{Case: cs, Entry: e, Input: string(in), Runes: []rune(string(in)),
					Obs: map[string]*proto.Obs{}, Hang: map[string]bool{}, Died: map[string]string{}})
			}
		}
	}
	var wg sync.WaitGroup
	n := runtime.NumCPU()
	ch := make(chan *Point, len(pts))
	for _, p := range pts {
		ch <- p
	}
	close(ch)
	for i := 0; i < n; i++ {
		wg.Add(1)
		go func() {
			defer wg.Done()
			for p := range ch {
				p.Ref = refpeg.Run(p.Case.G, p.Entry, p.Runes, budget)
			}
		}()
	}
	wg.Wait()
	return pts
}

func allEntries(cs *lab.Case) []int {
	var out []int
	pad := 0
	for i, r := range cs.G.Rules {
		// filler rules (gram.PadRules) only move rule numbers: two of them are entries
		if len(r.Name) >= 2 && r.Name[0] == 'P' && r.Name[1] >= '0' && r.Name[1] <= '9' {
			pad++
			if pad > 2 {
				continue
			}
		}
		out = append(out, i)
	}
	return out
}

type reqRef struct {
	pt   *Point
	v    lab.Variant
	mode []proto.Mode
}

// runPoints sends the requests for all points and stores the observations.
func runPoints(c *drv.Ctx, lp *LabProp, l *lab.Lab, pts []*Point) {
	var reqs []proto.Req
	var refs []reqRef
	for _, pt := range pts {
		for _, v := range lp.Variants {
			name := fmt.Sprintf("g%d%s", pt.Case.ID, v.Name)
			if !l.Runnable(name) {
				continue
			}
			modes := lp.Modes(c, pt, v)
			if len(modes) == 0 {
				continue
			}
			if !v.NoAST {
				for _, om := range lp.OrderModes {
					for _, m := range modes {
						if m == om {
							tf := om
							tf.TreeFirst = true
							modes = append(modes[:len(modes):len(modes)], tf)
							break
						}
					}
				}
			}
			reqs = append(reqs, proto.Req{Kind: "run", Pkg: name, Entry: pt.Entry, Input: proto.QStr(pt.Input), Modes: modes})
			refs = append(refs, reqRef{pt, v, modes})
		}
	}
	outs := l.Run(reqs, runtime.NumCPU(), 45*time.Second)
	for i, o := range outs {
		r := refs[i]
		for j, m := range r.mode {
			key := r.v.Name + "/" + modeKey(m)
			switch {
			case o.BadResp != "":
				drv.Inconclusive("a worker response could not be decoded (harness problem): %s", o.BadResp)
			case o.Diverged > 0:
				if r.pt.Diverged == nil {
					r.pt.Diverged = map[string]float64{}
				}
				r.pt.Diverged[r.v.Name] = o.Diverged
			case o.Hang:
				r.pt.Hang[key] = true
				if os.Getenv("VERIF_DEBUG") != "" && j == 0 {
					_ = os.WriteFile("/tmp/hang-input.txt", []byte(r.pt.Input), 0o644)
					fmt.Fprintf(os.Stderr, "---- watchdog: %s entry %d input of %d bytes (%q...) reference steps %d\n%s\n", key, r.pt.Entry, len(r.pt.Input), clip(r.pt.Input, 60), r.pt.Ref.Stats.Steps, r.pt.Case.G.String())
				}
			case o.Died != "":
				r.pt.Died[key] = o.Died
			case o.Resp.Err != "":
				r.pt.Died[key] = o.Resp.Err
			case j < len(o.Resp.Obs):
				ob := o.Resp.Obs[j]
				r.pt.Obs[key] = &ob
			}
		}
	}
}

func toksOf(ts []proto.Tok) string {
	var sb strings.Builder
	for i, t := range ts {
		if len(ts) > 48 && i == 20 {
			// long lists: the first and the last twenty
			fmt.Fprintf(&sb, " ... (%d more) ...", len(ts)-40)
		}
		if len(ts) > 48 && i >= 20 && i < len(ts)-20 {
			continue
		}
		if i > 0 {
			sb.WriteByte(' ')
		}
		fmt.Fprintf(&sb, "%s:%d:%d", t.N, t.B, t.E)
	}
	return sb.String()
}

func refToksOf(ts []refpeg.Tok) string {
	var sb strings.Builder
	for i, t := range ts {
		if i > 0 {
			sb.WriteByte(' ')
		}
		fmt.Fprintf(&sb, "%s:%d:%d", t.Name, t.B, t.E)
	}
	return sb.String()
}

func obsEnd(o *proto.Obs) int {
	if len(o.Tokens) == 0 {
		return -1
	}
	return o.Tokens[len(o.Tokens)-1].E
}

func (pt *Point) key(extra ...string) uint64 {
	parts := []string{pt.Case.G.String(), strconv.Itoa(pt.Entry), pt.Input}
	return drv.Hash(append(parts, extra...)...)
}

func (pt *Point) sample(extra map[string]any) map[string]any {
	m := map[string]any{
		"grammar": strings.Split(strings.TrimSpace(pt.Case.G.String()), "\n"),
		"profile": pt.Case.Profile,
		"entry":   pt.Case.G.Rules[pt.Entry].Name,
		"input":   strconv.QuoteToASCII(pt.Input),
	}
	if pt.Ref.OK {
		m["reference"] = fmt.Sprintf("accept, end=%d", pt.Ref.End)
	} else {
		m["reference"] = "reject"
	}
	for k, v := range extra {
		m[k] = v
	}
	return m
}

// runLabProp is the generic pipeline: collect, reference, build, run, judge, shrink.
func runLabProp(c *drv.Ctx, lp *LabProp) error {
	chunks := 1
	if lp.Chunks != nil {
		chunks = lp.Chunks(c)
	}
	fuzzOnly := os.Getenv("VERIF_FUZZ_ONLY") != "" && lp.NativeFuzz > 0
	if fuzzOnly {
		chunks = 0 // sensitivity experiments: judge the native campaign alone
	}
	excluded := map[string]int{}
	rejected := 0
	var pkgsBuilt, pkgsFailed, genFailed, hangs, died, budgetSkipped int
	var buildSecs float64
	firstID := 0
	for chunk := 0; chunk < chunks; chunk++ {
		o := lp.Opts(c)
		o.FirstID = firstID
		o.Excluded = excluded
		o.Rejected = &rejected
		seed := drv.ShardSeed(c.Seed, "lab-"+lp.ID, chunk)
		cases := lab.Collect(seed, o)
		firstID += len(cases)
		if lp.SkipCase != nil {
			var keep []*lab.Case
			for _, cs := range cases {
				if !lp.SkipCase(cs) {
					keep = append(keep, cs)
				} else {
					c.Stats.Class("cases_outside_quantifier")
				}
			}
			cases = keep
		}
		for _, cs := range cases {
			c.Stats.Class("profile_" + cs.Profile)
		}
		budget := refBudget(c)
		pts := computeRefs(c, cases, budget, allEntries)
		l, err := lab.Build(c, cases, lp.Variants, lab.Options{AllU: lp.AllU})
		if err != nil {
			return err
		}
		buildSecs += l.BuildSeconds
		for _, n := range l.Order {
			p := l.Pkgs[n]
			switch {
			case p.GenErr != "":
				genFailed++
			case p.BuildErr != "":
				pkgsFailed++
			default:
				pkgsBuilt++
			}
		}
		runPoints(c, lp, l, pts)
		var first *Mismatch
		var firstPt *Point
		nMis := 0
		for _, pt := range pts {
			if pt.Ref.Budget || pt.Ref.Unspecified {
				budgetSkipped++
				continue
			}
			for range pt.Hang {
				hangs++
			}
			for range pt.Died {
				died++
			}
			ms := append(append(divergence(pt), instability(lp, pt)...), lp.Judge(c, pt, l)...)
			if len(pt.Obs) > 0 && len(pt.Input) < 200 {
				c.Stats.Fallback(pt.sample(nil))
			}
			if len(ms) > 0 {
				nMis += len(ms)
				if first == nil {
					m := ms[0]
					first, firstPt = &m, pt
				}
			}
		}
		if first == nil && len(lp.ReuseModes) > 0 {
			if v := reuseCheck(c, lp, l, cases, pts); v != nil {
				c.AddViolation(*v)
				l.Close()
				break
			}
		}
		if first == nil && len(c.Violations) == 0 && len(lp.RetryModes) > 0 {
			if v := retryCheck(c, lp, l, cases, pts); v != nil {
				c.AddViolation(*v)
				l.Close()
				break
			}
		}
		// unobservable packages are reported once per chunk (C08 decides them)
		unobs := unobservable(l, lp)
		if first != nil {
			c.Stats.ClassN("mismatching_points", int64(nMis))
			v := shrinkLab(c, lp, l, firstPt, first)
			c.AddViolation(*v)
			l.Close()
			break
		}
		l.Close()
		if len(unobs) > 0 {
			c.Notes = append(c.Notes, unobs...)
		}
	}
	if (c.Thorough() || fuzzOnly) && lp.NativeFuzz > 0 && len(c.Violations) == 0 && c.Inconclusive == "" {
		labNativeFuzz(c, lp, firstID)
	}
	c.Stats.Extra["packages_built"] = pkgsBuilt
	c.Stats.Extra["packages_failed_to_build"] = pkgsFailed
	c.Stats.Extra["packages_failed_to_generate"] = genFailed
	c.Stats.Extra["skipped_reference_budget"] = budgetSkipped
	c.Stats.Extra["worker_hangs"] = hangs
	c.Stats.Extra["worker_deaths"] = died
	c.Stats.Extra["excluded_by_known_finding"] = excluded
	c.Stats.Extra["generator_rejects_wellformedness"] = rejected
	c.Stats.Extra["lab_build_seconds"] = buildSecs
	if len(c.Violations) == 0 {
		if pkgsBuilt == 0 && !fuzzOnly {
			drv.Inconclusive("no generated parser could be built (see C08); %d failed to generate, %d failed to compile", genFailed, pkgsFailed)
		}
		if hangs > 0 {
			c.Inconclusive = fmt.Sprintf("%d requests hit the watchdog (reported as inconclusive by policy)", hangs)
		} else if genFailed+pkgsFailed > 0 {
			// a parser that cannot be generated or compiled is C08's violation; this property
			// could not be observed on it, which must not read as "held"
			c.Inconclusive = fmt.Sprintf("%d generated parsers failed to generate and %d failed to compile: the property could not be observed on them (C08 decides validity of generated code)", genFailed, pkgsFailed)
		}
	}
	return nil
}

func unobservable(l *lab.Lab, lp *LabProp) []string {
	var out []string
	n := 0
	for _, name := range l.Order {
		p := l.Pkgs[name]
		if p.GenErr != "" || p.BuildErr != "" {
			n++
			if len(out) < 3 {
				msg := p.GenErr
				if msg == "" {
					msg = p.BuildErr
				}
				out = append(out, fmt.Sprintf("package %s (%s) not observable: %s", name, p.Var.Flags(), firstLine(msg)))
				if os.Getenv("VERIF_DEBUG") != "" {
					fmt.Fprintf(os.Stderr, "---- %s %s\n%s\n%s\n", name, msg, p.Text, p.Case.G.String())
				}
			}
		}
	}
	if n > 3 {
		out = append(out, fmt.Sprintf("... %d packages not observable in this chunk", n))
	}
	return out
}

func firstLine(s string) string {
	s = strings.TrimSpace(s)
	if i := strings.IndexByte(s, '\n'); i >= 0 {
		return s[:i]
	}
	return s
}

// evalLabCase evaluates one materialised case through a single-case lab (used by the
// shrinker and by replay). It returns the mismatches found for exactly that point.
func evalLabCases(c *drv.Ctx, lp *LabProp, cands []*LabReplay) [][]Mismatch {
	var cases []*lab.Case
	for i, r := range cands {
		cs := *r.Case
		cs.ID = i
		cs.Inputs = []proto.QStr{r.Input}
		cases = append(cases, &cs)
	}
	l, err := lab.Build(c, cases, lp.Variants, lab.Options{AllU: lp.AllU})
	if err != nil {
		drv.Inconclusive("single-case lab: %v", err)
	}
	defer l.Close()
	var pts []*Point
	for i, r := range cands {
		pt := &Point{Case: cases[i], Entry: r.Entry, Input: string(r.Input), Runes: []rune(string(r.Input)),
			Obs: map[string]*proto.Obs{}, Hang: map[string]bool{}, Died: map[string]string{}}
		pt.Ref = refpeg.Run(pt.Case.G, pt.Entry, pt.Runes, refBudget(c))
		pts = append(pts, pt)
	}
	scratch := drv.NewStats()
	saved := c.Stats
	c.Stats = scratch // judging candidates must not inflate the evidence counters
	defer func() { c.Stats = saved }()
	runPoints(c, lp, l, pts)
	out := make([][]Mismatch, len(cands))
	for i, pt := range pts {
		if pt.Ref.Budget {
			continue
		}
		out[i] = append(append(divergence(pt), instability(lp, pt)...), lp.Judge(c, pt, l)...)
	}
	return out
}

func init() {
	drv.RegisterReplay(kindLab, func(c *drv.Ctx, raw json.RawMessage) (string, error) {
		var r LabReplay
		if err := json.Unmarshal(raw, &r); err != nil {
			return "", err
		}
		lp, ok := labProps[r.Prop]
		if !ok {
			return "", fmt.Errorf("no lab property %s", r.Prop)
		}
		r.Case.G.Number()
		ms := evalLabCases(c, lp, []*LabReplay{&r})[0]
		if len(ms) == 0 {
			return "", nil
		}
		return ms[0].What, nil
	})
}

func registerLab(lp *LabProp, rule string, assumptions []string) {
	labProps[lp.ID] = lp
	drv.Register(lp.ID, rule, assumptions, func(c *drv.Ctx) error { return runLabProp(c, lp) })
}

func sortedKeys[V any](m map[string]V) []string {
	out := make([]string, 0, len(m))
	for k := range m {
		out = append(out, k)
	}
	sort.Strings(out)
	return out
}

var _ = gram.KSeq

// reuseCheck runs the points of every grammar on one long-lived instance per mode and
// compares each step with the fresh observation.
func reuseCheck(c *drv.Ctx, lp *LabProp, l *lab.Lab, cases []*lab.Case, pts []*Point) *drv.Violation {
	vs := lp.ReuseVariants
	if len(vs) == 0 {
		vs = lp.Variants[:1]
	}
	for _, v := range vs {
		if viol := reuseCheckVariant(c, lp, l, cases, pts, v); viol != nil {
			return viol
		}
	}
	return nil
}

func reuseCheckVariant(c *drv.Ctx, lp *LabProp, l *lab.Lab, cases []*lab.Case, pts []*Point, v lab.Variant) *drv.Violation {
	byCase := map[int][]*Point{}
	for _, pt := range pts {
		if !pt.Ref.Budget && len(pt.Input) <= 400 {
			byCase[pt.Case.ID] = append(byCase[pt.Case.ID], pt)
		}
	}
	type ref struct {
		cs   *lab.Case
		mode proto.Mode
		pts  []*Point
	}
	var reqs []proto.Req
	var refs []ref
	for _, cs := range cases {
		name := fmt.Sprintf("g%d%s", cs.ID, v.Name)
		if !l.Runnable(name) || len(byCase[cs.ID]) == 0 {
			continue
		}
		for _, m := range lp.ReuseModes {
			var steps []proto.Step
			var ps []*Point
			for _, pt := range byCase[cs.ID] {
				if obsOf(pt, v.Name, m) == nil {
					continue
				}
				steps = append(steps, proto.Step{Entry: pt.Entry, Input: proto.QStr(pt.Input)})
				ps = append(ps, pt)
				if len(steps)%3 == 2 {
					// the same text once more (Buffer unchanged, Reset, Parse): whatever a parser
					// keeps "because the text is the same" must not change the result
					steps = append(steps, proto.Step{Entry: pt.Entry, Input: proto.QStr(pt.Input)})
					ps = append(ps, pt)
				}
			}
			if len(steps) < 2 {
				continue
			}
			reqs = append(reqs, proto.Req{Kind: "hist", Pkg: name, Steps: steps, Modes: []proto.Mode{m}})
			refs = append(refs, ref{cs, m, ps})
		}
	}
	outs := l.Run(reqs, runtime.NumCPU(), 60*time.Second)
	for i, o := range outs {
		r := refs[i]
		if o.Hang || o.Died != "" || o.Resp.Err != "" {
			continue
		}
		for si, pt := range r.pts {
			if si >= len(o.Resp.Obs) {
				break
			}
			c.Stats.Eval()
			c.Stats.Class("reused_instance_steps")
			fresh := obsOf(pt, v.Name, r.mode)
			if d := obsDiff(&o.Resp.Obs[si], fresh); d != "" {
				// materialise as a history: the steps up to the failing one
				var steps []proto.Step
				for _, p := range r.pts[:si+1] {
					steps = append(steps, proto.Step{Entry: p.Entry, Input: proto.QStr(p.Input)})
				}
				ev := &histEval{what: fmt.Sprintf("step %d (entry %s, input %q) on a reused instance [%s] differs from a fresh parser: %s", si, r.cs.G.Rules[pt.Entry].Name, pt.Input, modeKey(r.mode), d), mode: r.mode, step: si, variant: v.Name}
				return shrinkHist(c, lp.ID, r.cs, steps, ev)
			}
		}
	}
	return nil
}

// retryCheck: a second Parse without Reset after a rejected one.
func retryCheck(c *drv.Ctx, lp *LabProp, l *lab.Lab, cases []*lab.Case, pts []*Point) *drv.Violation {
	v := lp.Variants[0]
	type ref struct {
		first, second *Point
		mode          proto.Mode
	}
	var reqs []proto.Req
	var refs []ref
	byCaseInput := map[string][]*Point{}
	for _, pt := range pts {
		if !pt.Ref.Budget && !pt.Ref.Unspecified && len(pt.Input) <= 200 {
			k := fmt.Sprint(pt.Case.ID, "/", pt.Input)
			byCaseInput[k] = append(byCaseInput[k], pt)
		}
	}
	keys := sortedKeys(byCaseInput)
	for _, k := range keys {
		group := byCaseInput[k]
		for i, a := range group {
			if a.Ref.OK || i%2 == 1 {
				continue // the first call must be a rejected one; every other such point
			}
			b := group[(i+1)%len(group)] // the entry tried next (may be the same rule)
			name := fmt.Sprintf("g%d%s", a.Case.ID, v.Name)
			if !l.Runnable(name) {
				continue
			}
			for _, m := range lp.RetryModes {
				if obsOf(b, v.Name, m) == nil || obsOf(a, v.Name, m) == nil || obsOf(a, v.Name, m).NilRule || obsOf(b, v.Name, m).NilRule {
					continue
				}
				again := b.Entry
				reqs = append(reqs, proto.Req{Kind: "hist", Pkg: name, Steps: []proto.Step{{Entry: a.Entry, Input: proto.QStr(a.Input), Again: &again}}, Modes: []proto.Mode{m}})
				refs = append(refs, ref{a, b, m})
			}
		}
	}
	outs := l.Run(reqs, runtime.NumCPU(), 30*time.Second)
	seconds := map[string]*proto.Obs{}
	for i, o := range outs {
		r := refs[i]
		if o.Hang || o.Died != "" || o.Resp.Err != "" || len(o.Resp.Obs) == 0 {
			continue
		}
		c.Stats.Eval()
		c.Stats.Class("second_parse_without_reset_after_a_rejected_one")
		got := &o.Resp.Obs[0]
		fresh := obsOf(r.second, v.Name, r.mode)
		what := ""
		switch {
		case got.Panic != "":
			what = "panic: " + got.Panic
		case got.OK != fresh.OK:
			what = fmt.Sprintf("verdict ok=%v, a fresh parser gives ok=%v", got.OK, fresh.OK)
		case got.OK && !sameObsToks(got.Tokens, fresh.Tokens):
			what = fmt.Sprintf("tokens [%s], a fresh parser gives [%s]", toksOf(got.Tokens), toksOf(fresh.Tokens))
		case got.OK && fmt.Sprint(got.Trace) != fmt.Sprint(fresh.Trace):
			what = fmt.Sprintf("action trace %v, a fresh parser gives %v", got.Trace, fresh.Trace)
		case got.OK && got.Sprint != fresh.Sprint:
			what = fmt.Sprintf("syntax tree %q, a fresh parser gives %q", got.Sprint, fresh.Sprint)
		}
		key := fmt.Sprint(r.first.Case.ID, "/", r.first.Entry, "/", r.second.Entry, "/", r.first.Input)
		if what == "" && len(lp.RetryModes) == 2 {
			if other, ok := seconds[key]; ok {
				if !got.OK && !sameErrTok(got.ErrTok, other.ErrTok) {
					what = fmt.Sprintf("error token %v, the same calls with the other memo mode give %v", got.ErrTok, other.ErrTok)
				}
			} else {
				seconds[key] = got
			}
		}
		if what != "" {
			again := r.second.Entry
			cs := *r.first.Case
			cs.Hist = nil
			if what != "" && !strings.Contains(what, "other memo mode") {
				// minimise through the history shrinker (it knows about second calls)
				ev := &histEval{what: fmt.Sprintf("Parse(%s) is rejected on %s; Parse(%s) called next WITHOUT Reset [%s]: %s", r.first.Case.G.Rules[r.first.Entry].Name, clipQ(r.first.Input), r.first.Case.G.Rules[again].Name, modeKey(r.mode), what), mode: r.mode, step: 0}
				v := shrinkHist(c, lp.ID, &cs, []proto.Step{{Entry: r.first.Entry, Input: proto.QStr(r.first.Input), Again: &again}}, ev)
				v.Kind = "lab-retry"
				return v
			}
			rp := &histReplay{Case: &cs, Steps: []proto.Step{{Entry: r.first.Entry, Input: proto.QStr(r.first.Input), Again: &again}}, Mode: r.mode}
			rp.Grammar = lab.Render(rp.Case, "g", false)
			desc := fmt.Sprintf("Parse(%s) is rejected on %q; Parse(%s) called next WITHOUT Reset [%s]: %s\n--- grammar ---\n%s", r.first.Case.G.Rules[r.first.Entry].Name, r.first.Input,
				r.first.Case.G.Rules[again].Name, modeKey(r.mode), what, strings.TrimSpace(r.first.Case.G.String()))
			return &drv.Violation{Property: lp.ID, Kind: "lab-retry", What: desc, Case: rp}
		}
	}
	return nil
}

func init() {
	drv.RegisterReplay("lab-retry", func(c *drv.Ctx, raw json.RawMessage) (string, error) {
		var r histReplay
		if err := json.Unmarshal(raw, &r); err != nil {
			return "", err
		}
		r.Case.G.Number()
		if len(r.Steps) != 1 || r.Steps[0].Again == nil {
			return "", fmt.Errorf("not a retry case")
		}
		cs := *r.Case
		cs.ID = 0
		l, err := lab.Build(c, []*lab.Case{&cs}, []lab.Variant{lab.V0}, lab.Options{})
		if err != nil {
			return "", err
		}
		defer l.Close()
		st := r.Steps[0]
		outs := l.Run([]proto.Req{
			{Kind: "hist", Pkg: "g0v0", Steps: []proto.Step{st}, Modes: []proto.Mode{r.Mode}},
			{Kind: "run", Pkg: "g0v0", Entry: *st.Again, Input: st.Input, Modes: []proto.Mode{r.Mode}},
			{Kind: "hist", Pkg: "g0v0", Steps: []proto.Step{st}, Modes: []proto.Mode{{NoMemo: !r.Mode.NoMemo}}},
		}, 3, 30*time.Second)
		if len(outs[0].Resp.Obs) == 0 || len(outs[1].Resp.Obs) == 0 {
			return "", fmt.Errorf("no observation")
		}
		got, fresh := &outs[0].Resp.Obs[0], &outs[1].Resp.Obs[0]
		if got.Panic != "" || got.OK != fresh.OK || (got.OK && (!sameObsToks(got.Tokens, fresh.Tokens) || got.Sprint != fresh.Sprint || fmt.Sprint(got.Trace) != fmt.Sprint(fresh.Trace))) {
			return fmt.Sprintf("second Parse without Reset: ok=%v tokens [%s]; fresh: ok=%v tokens [%s] %s", got.OK, toksOf(got.Tokens), fresh.OK, toksOf(fresh.Tokens), got.Panic), nil
		}
		if len(outs[2].Resp.Obs) > 0 && !got.OK && !sameErrTok(got.ErrTok, outs[2].Resp.Obs[0].ErrTok) {
			return fmt.Sprintf("second Parse without Reset: error token %v vs %v in the other memo mode", got.ErrTok, outs[2].Resp.Obs[0].ErrTok), nil
		}
		return "", nil
	})
}

// labNativeFuzz builds a batch with the FuzzLab target and runs the campaign.
func labNativeFuzz(c *drv.Ctx, lp *LabProp, firstID int) {
	o := lp.Opts(c)
	o.N = 48
	o.FirstID = firstID
	o.Long = false
	rejected := 0
	o.Rejected = &rejected
	cases := lab.Collect(drv.ShardSeed(c.Seed, "lab-fuzz-"+lp.ID, 0), o)
	if lp.SkipCase != nil {
		var keep []*lab.Case
		for _, cs := range cases {
			if !lp.SkipCase(cs) {
				keep = append(keep, cs)
			}
		}
		cases = keep
	}
	type seed struct {
		G     int        `json:"g"`
		Entry int        `json:"entry"`
		Input proto.QStr `json:"input"`
	}
	var seeds []seed
	for gi, cs := range cases {
		for k, in := range cs.Inputs {
			if len(in) <= 48 && k < 12 {
				seeds = append(seeds, seed{gi, k % len(cs.G.Rules), in})
			}
		}
	}
	sb, _ := json.Marshal(seeds)
	l, err := lab.Build(c, cases, lp.Variants, lab.Options{AllU: lp.AllU, FuzzLab: true, FuzzSeeds: sb, FuzzOracle: lp.FuzzOracle})
	if err != nil {
		c.Notes = append(c.Notes, "native fuzz batch did not build: "+firstLine(err.Error()))
		return
	}
	defer l.Close()
	res, err := runNativeFuzz(c, l.Dir, "FuzzLab", time.Duration(lp.NativeFuzz)*time.Second)
	if err != nil {
		c.Notes = append(c.Notes, "native fuzzing did not run: "+firstLine(err.Error()))
		return
	}
	c.Stats.Extra["native_fuzz_execs"] = res.Execs
	c.Stats.Extra["native_fuzz_seconds"] = res.Seconds
	c.Stats.Extra["native_fuzz_grammars"] = len(cases)
	c.Stats.Evaluations += res.Execs
	if !res.Failed {
		return
	}
	var gi, entry int
	var input string
	switch {
	case res.Baseline && res.SeedIndex >= 0 && res.SeedIndex < len(seeds):
		sd := seeds[res.SeedIndex]
		gi, entry, input = sd.G, sd.Entry, string(sd.Input)
	case res.Baseline || len(res.Args) < 3:
		c.Notes = append(c.Notes, "native fuzz: a seed input fails in the target: "+tail(res.Output, 600))
		c.Inconclusive = "native fuzz target failed on its seed corpus (see notes)"
		return
	default:
		gi, _ = strconv.Atoi(res.Args[0])
		entry, _ = strconv.Atoi(res.Args[1])
		input = res.Args[2]
	}
	cs := cases[gi%len(cases)]
	entry %= len(cs.G.Rules)
	cc := *cs
	cc.Inputs = []proto.QStr{proto.QStr(input)}
	cc.Hist = nil
	rp := &LabReplay{Prop: lp.ID, Case: &cc, Entry: entry, Input: proto.QStr(input)}
	ms := evalLabCases(c, lp, []*LabReplay{rp})[0]
	if len(ms) == 0 {
		c.Notes = append(c.Notes, "native fuzz reported a failure that the single-case pipeline does not reproduce: "+tail(res.Output, 500))
		c.Inconclusive = "native fuzz failure did not reproduce"
		return
	}
	pt := &Point{Case: &cc, Entry: entry, Input: input, Runes: []rune(input)}
	v := shrinkLab(c, lp, nil, pt, &ms[0])
	v.What = "(found by go test -fuzz) " + v.What
	c.AddViolation(*v)
}
