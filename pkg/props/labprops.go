package props

import (
	"bytes"
	"fmt"
	"os"
	"path/filepath"
	"regexp"
	"strconv"
	"strings"
	"time"
	"unicode/utf8"

	"verif/pkg/drv"
	"verif/pkg/gram"
	"verif/pkg/lab"
	"verif/pkg/lab/proto"
	"verif/pkg/refpeg"
)

var (
	noMemoMode = proto.Mode{NoMemo: true}
	prettyMode = proto.Mode{Pretty: true}
	printMode  = proto.Mode{Print: true}
)

func obsOf(pt *Point, v string, m proto.Mode) *proto.Obs { return pt.Obs[v+"/"+modeKey(m)] }

func sameToks(o []proto.Tok, r []refpeg.Tok) bool {
	if len(o) != len(r) {
		return false
	}
	for i := range o {
		if o[i].N != r[i].Name || o[i].B != r[i].B || o[i].E != r[i].E {
			return false
		}
	}
	return true
}

func sameObsToks(a, b []proto.Tok) bool {
	if len(a) != len(b) {
		return false
	}
	for i := range a {
		if a[i] != b[i] {
			return false
		}
	}
	return true
}

func small(pt *Point) bool { return len(pt.Input) <= 14 && pt.Case.G.Size() <= 32 }

// altShapes classifies the ordered choices of a grammar (what C02 quantifies over).
func altShapes(g *gram.Grammar) map[string]int {
	out := map[string]int{}
	null := g.Nullable()
	idx := map[string]int{}
	for i, r := range g.Rules {
		idx[r.Name] = i
	}
	var nullable func(e *gram.Expr) bool
	nullable = func(e *gram.Expr) bool {
		switch e.K {
		case gram.KEmpty, gram.KOpt, gram.KStar, gram.KAnd, gram.KNot, gram.KAct, gram.KPred, gram.KState:
			return true
		case gram.KLit, gram.KClass, gram.KDot:
			return false
		case gram.KRef:
			return null[e.Rule]
		case gram.KSeq:
			for _, k := range e.Kids {
				if !nullable(k) {
					return false
				}
			}
			return true
		case gram.KAlt:
			if e.EmptyLast {
				return true
			}
			for _, k := range e.Kids {
				if nullable(k) {
					return true
				}
			}
			return false
		}
		return nullable(e.Kids[0])
	}
	first := func(e *gram.Expr) *gram.Expr {
		for e.K == gram.KSeq || e.K == gram.KCap {
			e = e.Kids[0]
		}
		return e
	}
	for _, r := range g.Rules {
		r.Body.Walk(func(e *gram.Expr) {
			if e.K != gram.KAlt {
				return
			}
			n := len(e.Kids)
			if e.EmptyLast {
				n++
			}
			if n < 3 {
				return
			}
			out["choice_3plus"]++
			if e.EmptyLast {
				out["choice_empty_last"]++
			}
			for _, k := range e.Kids {
				if nullable(k) {
					out["alt_nullable"]++
				}
				switch f := first(k); f.K {
				case gram.KAnd, gram.KNot, gram.KPred:
					out["alt_lookahead_first"]++
				case gram.KClass:
					out["alt_class_first"]++
				case gram.KAlt:
					out["alt_nested_choice_first"]++
				case gram.KRef:
					out["alt_ref_first"]++
				case gram.KDot:
					out["alt_dot_first"]++
				case gram.KOpt, gram.KStar:
					out["alt_optional_first"]++
				}
			}
		})
	}
	return out
}

var switchRe = []byte("switch buffer[position]")

// scoreBy builds an input-ranking function from a predicate over the reference result.
func scoreBy(f func(r *refpeg.Result, in []rune) int) func(g *gram.Grammar, entry int, input []rune) int {
	return func(g *gram.Grammar, entry int, input []rune) int {
		r := refpeg.Run(g, entry, input, 50000)
		if r.Budget {
			return -1
		}
		return f(&r, input)
	}
}

func b2i(b bool) int {
	if b {
		return 1
	}
	return 0
}

func init() {
	// ------------------------------------------------------------------ C02
	registerLab(&LabProp{
		ID:         "C02",
		Variants:   lab.ASTVariants,
		NativeFuzz: 150,
		FuzzOracle: "differential",
		Chunks:     func(c *drv.Ctx) int { return c.Pick(1, 10) },
		Opts: func(c *drv.Ctx) lab.CollectOpts {
			return lab.CollectOpts{N: c.Pick(128, 240), Profiles: []string{"switchy", "switchy", "plain", "switchy", "backtracky", "switchy"},
				Inputs: c.Pick(24, 36), Hostile: false, MaxRune: true, LeadSwap: true}
		},
		Modes: func(c *drv.Ctx, pt *Point, v lab.Variant) []proto.Mode { return []proto.Mode{memoMode} },
		Judge: func(c *drv.Ctx, pt *Point, l *lab.Lab) []Mismatch {
			base := obsOf(pt, "v0", memoMode)
			if base == nil || base.NilRule {
				return nil
			}
			var ms []Mismatch
			shapes := altShapes(pt.Case.G)
			for _, v := range lab.ASTVariants[1:] {
				o := obsOf(pt, v.Name, memoMode)
				if o == nil {
					continue
				}
				if o.NilRule {
					// an inlined rule has no entry point by design
					c.Stats.Class("entry_inlined_away")
					continue
				}
				c.Stats.Eval()
				src := l.Pkgs[fmt.Sprintf("g%d%s", pt.Case.ID, v.Name)].Source
				hasSwitch := v.Switch && bytes.Contains(src, switchRe)
				hasInline := v.Inline && bytes.Contains(src, []byte("\n\t\tnil,\n"))
				if (hasSwitch || hasInline) && (pt.Ref.Stats.RestoreAfterConsume > 0 || pt.Ref.OK && pt.Ref.End > 0) {
					if c.Stats.Nontrivial(pt.key(v.Name)) {
						if hasSwitch {
							c.Stats.Class("nt_with_switch_emitted")
						}
						if hasInline {
							c.Stats.Class("nt_with_rule_inlined")
						}
						if hasSwitch && shapes["alt_nullable"] > 0 {
							c.Stats.Class("nt_switch_grammar_has_nullable_alternative")
						}
						if hasSwitch && shapes["alt_lookahead_first"] > 0 {
							c.Stats.Class("nt_switch_grammar_has_lookahead_first_alternative")
						}
						if hasSwitch && shapes["alt_nested_choice_first"] > 0 {
							c.Stats.Class("nt_switch_grammar_has_nested_choice")
						}
						if hasSwitch && small(pt) {
							c.Stats.Sample(pt.sample(map[string]any{"options": v.Flags()}))
						}
					}
				}
				what := ""
				switch {
				case o.Panic != "":
					what = fmt.Sprintf("parser generated with %q panicked: %s (default options: ok=%v)", v.Flags(), o.Panic, base.OK)
				case base.Panic != "":
					continue
				case o.OK != base.OK:
					what = fmt.Sprintf("verdict differs: %q ok=%v, default options ok=%v (PEG semantics ok=%v)", v.Flags(), o.OK, base.OK, pt.Ref.OK)
				case o.OK && !sameObsToks(o.Tokens, base.Tokens):
					what = fmt.Sprintf("tokens differ: %q [%s], default options [%s]", v.Flags(), toksOf(o.Tokens), toksOf(base.Tokens))
				}
				if what != "" {
					ms = append(ms, Mismatch{What: what, Variant: v.Name, Mode: memoMode})
				}
			}
			return ms
		},
	},
		"well-formed grammars weighted towards >=3-way ordered choices built as first-character dispatch (in front of the leading character: lookahead, optional/repeated elements incl. subsets of the leading class, nullable and mixed nested choices, nullable rule references, recursive references, captures, actions; wide siblings; the nested-group idiom; U+10FFFF and edge ranges allowed) x ~24-36 inputs x every entry that exists in all four parsers; the parsers generated with -inline, -switch and both are compared with the default parser on verdict, consumed prefix and token list. Non-trivial: the variant's emitted source contains a switch (resp. an inlined rule) and the reference run accepted a non-empty prefix or backtracked after consuming; distinct = (grammar, entry, input, option set).",
		[]string{"a rule inlined away has no entry point by design and is skipped as entry", "packages that fail to generate or compile are C08's violations and are only counted here"})

	// ------------------------------------------------------------------ C03
	sizeModes := []proto.Mode{memoMode, {Size: 1}, {Size: 2}, {Size: 1<<15 + 1}}
	// narrow instantiations: every offset and token index of the run fits the type (the
	// reference completes fewer records than the type can count, end-of-input sentinel included)
	c03Modes := func(pt *Point) []proto.Mode {
		ms := append([]proto.Mode{}, sizeModes...)
		fits := len(pt.Runes) + 2 + pt.Ref.Stats.Completed
		if fits < 250 {
			ms = append(ms, proto.Mode{U: "uint8"})
		}
		if fits < 60000 {
			ms = append(ms, proto.Mode{U: "uint16"})
		}
		return ms
	}
	registerLab(&LabProp{
		ID:         "C03",
		AllU:       true,
		OrderModes: []proto.Mode{memoMode},
		Variants:   []lab.Variant{lab.V0},
		NativeFuzz: 120,
		FuzzOracle: "tokens",
		Chunks:     func(c *drv.Ctx) int { return c.Pick(1, 8) },
		Opts: func(c *drv.Ctx) lab.CollectOpts {
			return lab.CollectOpts{N: c.Pick(100, 300), Profiles: []string{"backtracky", "plain", "backtracky", "deep", "liney"},
				Inputs: c.Pick(24, 40), Hostile: true, Pumped: 3,
				Score: scoreBy(func(r *refpeg.Result, in []rune) int {
					return b2i(r.OK)*2 + b2i(r.OK && r.Stats.DiscardedTokens > 0)*2 + b2i(r.OK && r.Stats.DiscardedCaptures > 0)*2 + b2i(r.OK && r.Stats.MultiByteConsumed)
				})}
		},
		RetryModes: []proto.Mode{memoMode},
		Modes: func(c *drv.Ctx, pt *Point, v lab.Variant) []proto.Mode {
			if !pt.Ref.OK {
				return []proto.Mode{memoMode} // only as the rejected first call of a retry
			}
			return c03Modes(pt)
		},
		Judge: func(c *drv.Ctx, pt *Point, l *lab.Lab) []Mismatch {
			if !pt.Ref.OK {
				return nil
			}
			want := refpeg.Tokens(pt.Ref.Root)
			var ms []Mismatch
			for _, m := range c03Modes(pt) {
				o := obsOf(pt, "v0", m)
				if o == nil || o.NilRule {
					continue
				}
				c.Stats.Eval()
				if m.U != "" {
					c.Stats.Class("run_as_" + m.U)
				}
				if m.Size == 0 && m.U == "" && (pt.Ref.Stats.DiscardedTokens > 0 || pt.Ref.Stats.MultiByteConsumed) && c.Stats.Nontrivial(pt.key()) {
					if pt.Ref.Stats.DiscardedTokens > 0 {
						c.Stats.Class("nt_tokens_discarded_by_backtracking_or_lookahead")
					}
					if pt.Ref.Stats.DiscardedCaptures > 0 {
						c.Stats.Class("nt_capture_tokens_discarded")
					}
					if pt.Ref.Stats.MultiByteConsumed {
						c.Stats.Class("nt_multibyte_consumed")
					}
					if small(pt) {
						c.Stats.Sample(pt.sample(map[string]any{"tokens": refToksOf(want)}))
					}
				}
				if m.Size > 0 {
					c.Stats.Class("run_with_Size_" + strconv.Itoa(m.Size-1))
				}
				what := ""
				switch {
				case o.Panic != "":
					what = "parser panicked: " + o.Panic
				case !o.OK:
					what = "parser rejected an input that PEG semantics accept (C01)"
				case !sameToks(o.Tokens, want):
					what = fmt.Sprintf("token stream [%s] differs from the post-order derivation record [%s] (%s)", toksOf(o.Tokens), refToksOf(want), modeKey(m))
				}
				if what != "" {
					ms = append(ms, Mismatch{What: what, Variant: "v0", Mode: m})
				}
			}
			return ms
		},
	},
		"well-formed grammars weighted towards shared prefixes with captures/actions inside failing branches and lookahead, capture-only backtrack points, capture-then-fail alternatives, the memo-splice and until idioms x accepted inputs (ranked by discarded capture tokens) x every entry; Tokens() of the default parser (token buffer Size unset, 0, 1 and 32768; also of a second Parse without Reset after a rejected one) is compared with the post-order derivation record of the reference interpreter (names, rune offsets). Non-trivial: the reference run completed records that were later discarded (backtracking, abandoned iteration, lookahead), or a multi-byte rune was consumed; distinct = (grammar, entry, input).",
		[]string{"action tokens are named Action<K> with K the textual index of the action (the observable rule-name table)"})

	// ------------------------------------------------------------------ C04
	registerLab(&LabProp{
		ID:       "C04",
		Variants: []lab.Variant{lab.V0},
		Chunks:   func(c *drv.Ctx) int { return c.Pick(1, 8) },
		Opts: func(c *drv.Ctx) lab.CollectOpts {
			return lab.CollectOpts{N: c.Pick(100, 300), Profiles: []string{"actiony", "backtracky", "actiony", "deep", "actiony"},
				Inputs: c.Pick(24, 40), Hostile: true, Pad: 8,
				Score: scoreBy(func(r *refpeg.Result, in []rune) int {
					if !r.OK {
						return 0
					}
					n := len(refpeg.ExecTrace(r.Root, in))
					return 1 + b2i(n >= 2)*2 + b2i(n >= 2 && r.Stats.DiscardedTokens > 0)*2 + b2i(len(r.XTrace) > n)
				})}
		},
		SkipCase:   func(cs *lab.Case) bool { return cs.G.Count(gram.KAct) == 0 },
		OrderModes: []proto.Mode{memoMode},
		// a rejected Parse(a) followed by Parse(b) without Reset: Execute must run b's actions
		// only, not what a's attempt left in the token buffer
		RetryModes: []proto.Mode{memoMode},
		Modes: func(c *drv.Ctx, pt *Point, v lab.Variant) []proto.Mode {
			if !pt.Ref.OK {
				return []proto.Mode{memoMode} // only as the rejected first call of a retry
			}
			// the second mode is not judged here: it is there for the runner's check that a
			// second instance set up from the same option value leaves this one's results alone
			return []proto.Mode{memoMode, {Size: 65}}
		},
		Judge: func(c *drv.Ctx, pt *Point, l *lab.Lab) []Mismatch {
			o := obsOf(pt, "v0", memoMode)
			if !pt.Ref.OK || o == nil || o.NilRule {
				return nil
			}
			c.Stats.Eval()
			want := refpeg.ExecTrace(pt.Ref.Root, pt.Runes)
			counts := map[int]int{}
			nested := false
			for _, t := range want {
				counts[t.ID]++
			}
			repeated := false
			for _, n := range counts {
				if n >= 2 {
					repeated = true
				}
			}
			pt.Case.G.Rules[0].Body.Walk(func(e *gram.Expr) {})
			for _, r := range pt.Case.G.Rules {
				r.Body.Walk(func(e *gram.Expr) {
					if e.K == gram.KCap {
						e.Kids[0].Walk(func(x *gram.Expr) {
							if x.K == gram.KCap {
								nested = true
							}
						})
					}
				})
			}
			if len(want) >= 2 && (pt.Ref.Stats.DiscardedTokens > 0 || nested || repeated) && c.Stats.Nontrivial(pt.key()) {
				if repeated {
					c.Stats.Class("nt_action_in_repetition_executed_twice_or_more")
				}
				if nested {
					c.Stats.Class("nt_grammar_with_nested_captures")
				}
				if pt.Ref.Stats.DiscardedTokens > 0 {
					c.Stats.Class("nt_records_discarded")
				}
				if small(pt) {
					c.Stats.Sample(pt.sample(map[string]any{"expected_trace": fmt.Sprint(want)}))
				}
			}
			what := ""
			switch {
			case o.Panic != "":
				what = "parser or Execute panicked: " + o.Panic
			case !o.OK:
				what = "parser rejected an input that PEG semantics accept (C01)"
			default:
				if len(o.Trace) != len(want) {
					what = fmt.Sprintf("Execute ran %d actions, the derivation has %d: got %v want %v", len(o.Trace), len(want), o.Trace, want)
				} else {
					for i, t := range o.Trace {
						w := want[i]
						if t.ID != "a"+strconv.Itoa(w.ID) || string(t.Text) != w.Text || t.B != w.B || t.E != w.E {
							what = fmt.Sprintf("action #%d: got %s text=%q begin=%d end=%d, want a%d text=%q begin=%d end=%d", i, t.ID, t.Text, t.B, t.E, w.ID, w.Text, w.B, w.E)
							break
						}
					}
				}
			}
			if what != "" {
				return []Mismatch{{What: what, Variant: "v0", Mode: memoMode}}
			}
			return nil
		},
	},
		"well-formed grammars with probe actions and captures placed anywhere (inside alternatives that later fail, repetitions, lookahead, nested captures) x accepted inputs x every entry; the probe trace recorded during Execute() (action id, text, begin, end) is compared with the reference: actions of the successful derivation in order, each with the most recently completed capture preceding it. Non-trivial: >=2 actions executed and (records discarded by backtracking/lookahead, or nested captures, or an action executed >=2 times); distinct = (grammar, entry, input).",
		[]string{"probe actions only append to a per-instance trace"})

	// ------------------------------------------------------------------ C05
	registerLab(&LabProp{
		ID:       "C05",
		Variants: []lab.Variant{lab.V0},
		Chunks:   func(c *drv.Ctx) int { return c.Pick(1, 8) },
		Opts: func(c *drv.Ctx) lab.CollectOpts {
			return lab.CollectOpts{N: c.Pick(100, 300), Profiles: []string{"deep", "deep", "backtracky", "liney", "plain"},
				Inputs: c.Pick(24, 40), Hostile: true,
				Score: scoreBy(func(r *refpeg.Result, in []rune) int {
					if !r.OK || r.End == 0 {
						return 0
					}
					d, eq, many, empty := treeShape(refpeg.Tree(r.Root), r.Root)
					return 1 + b2i(d >= 3) + b2i(eq) + b2i(many) + b2i(empty)
				})}
		},
		ReuseModes: []proto.Mode{printMode},
		OrderModes: []proto.Mode{printMode},
		Modes: func(c *drv.Ctx, pt *Point, v lab.Variant) []proto.Mode {
			if !pt.Ref.OK {
				return nil
			}
			return []proto.Mode{printMode, {Size: 65}} // the second one for the sibling-instance check of the runner
		},
		Judge: func(c *drv.Ctx, pt *Point, l *lab.Lab) []Mismatch {
			o := obsOf(pt, "v0", printMode)
			if !pt.Ref.OK || o == nil || o.NilRule {
				return nil
			}
			c.Stats.Eval()
			tree := refpeg.Tree(pt.Ref.Root)
			want := refpeg.PrintTree(tree, pt.Runes)
			depth, equalSpan, manySiblings, emptyBetween := treeShape(tree, pt.Ref.Root)
			if (depth >= 3 || equalSpan || manySiblings || emptyBetween || pt.Ref.Stats.MultiByteConsumed) && c.Stats.Nontrivial(pt.key()) {
				if depth >= 3 {
					c.Stats.Class("nt_depth_3plus")
				}
				if equalSpan {
					c.Stats.Class("nt_parent_child_equal_span")
				}
				if manySiblings {
					c.Stats.Class("nt_3plus_siblings")
				}
				if emptyBetween {
					c.Stats.Class("nt_zero_width_token_between_siblings")
				}
				if small(pt) && depth >= 3 {
					c.Stats.Sample(pt.sample(map[string]any{"expected_tree": strings.Split(strings.TrimRight(want, "\n"), "\n")}))
				}
			}
			what := ""
			switch {
			case o.Panic != "":
				what = "panic: " + o.Panic
			case !o.OK:
				what = "parser rejected an input that PEG semantics accept (C01)"
			case o.Sprint != want:
				what = fmt.Sprintf("SprintSyntaxTree() = %q, derivation tree prints as %q", o.Sprint, want)
			case o.Write != want:
				what = fmt.Sprintf("WriteSyntaxTree wrote %q, want %q", o.Write, want)
			case o.Printed != want:
				what = fmt.Sprintf("PrintSyntaxTree printed %q, want %q", o.Printed, want)
			case !sameTree(o.AST, tree):
				what = fmt.Sprintf("AST() walked through up/next is %s, derivation tree is %s", astString(o.AST), refTreeString(tree))
			}
			if what != "" {
				return []Mismatch{{What: what, Variant: "v0", Mode: printMode}}
			}
			return nil
		},
	},
		"well-formed grammars weighted towards nesting (rules and captures inside each other, equal spans, zero-width records between siblings) x accepted inputs x every entry; SprintSyntaxTree, WriteSyntaxTree, PrintSyntaxTree (stdout captured) and a walk of AST() through up/next are compared with the derivation tree of the reference interpreter (non-empty records only, children in input order, name + quoted substring per line). Non-trivial: depth>=3, parent and child with equal span, >=3 siblings, a zero-width record between non-empty siblings, or multi-byte text; distinct = (grammar, entry, input).",
		nil)

	// ------------------------------------------------------------------ C06
	c06Variants := []lab.Variant{lab.V0, lab.V3}
	registerLab(&LabProp{
		ID:         "C06",
		Variants:   c06Variants,
		NativeFuzz: 120,
		FuzzOracle: "tokens",
		Chunks:     func(c *drv.Ctx) int { return c.Pick(1, 8) },
		Opts: func(c *drv.Ctx) lab.CollectOpts {
			return lab.CollectOpts{N: c.Pick(80, 250), Profiles: []string{"backtracky", "backtracky", "plain", "deep", "switchy"},
				Inputs: c.Pick(24, 40), Hostile: true, Huge: 2,
				Score: scoreBy(func(r *refpeg.Result, in []rune) int {
					return b2i(r.Stats.Revisits > 0)*2 + b2i(r.Stats.RevisitSuccess > 0)*2 + b2i(r.Stats.RevisitInLookahead > 0) + b2i(!r.OK && r.ErrTok != nil) +
						b2i(r.Stats.Completed > 1100 && r.Stats.RevisitSuccess > 0)*4
				})}
		},
		SkipCase:   func(cs *lab.Case) bool { return cs.G.Count(gram.KState) > 0 },
		ReuseModes: []proto.Mode{memoMode, noMemoMode},
		RetryModes: []proto.Mode{memoMode, noMemoMode},
		Modes: func(c *drv.Ctx, pt *Point, v lab.Variant) []proto.Mode {
			if pt.Ref.Budget || pt.Ref.Stats.Steps > memoFreeBudget(c) {
				c.Stats.Class("skipped_exponential_without_memo")
				return []proto.Mode{memoMode}
			}
			return []proto.Mode{memoMode, noMemoMode}
		},
		Judge: func(c *drv.Ctx, pt *Point, l *lab.Lab) []Mismatch {
			var ms []Mismatch
			for _, v := range c06Variants {
				a, b := obsOf(pt, v.Name, memoMode), obsOf(pt, v.Name, noMemoMode)
				if a == nil || a.NilRule {
					continue
				}
				if b == nil {
					// too expensive without the memo table: the memoised run is still held
					// against PEG semantics
					if pt.Ref.Budget || pt.Ref.Unspecified {
						continue
					}
					c.Stats.Eval()
					c.Stats.Class("memoised_run_compared_with_reference_only")
					what := ""
					switch {
					case a.Panic != "":
						what = "memoised parser panicked: " + a.Panic
					case a.OK != pt.Ref.OK:
						what = fmt.Sprintf("memoised parser ok=%v, PEG semantics ok=%v", a.OK, pt.Ref.OK)
					case v.Name == "v0" && a.OK && !sameToks(a.Tokens, refpeg.Tokens(pt.Ref.Root)):
						what = "tokens of the memoised parser differ from the derivation record"
					}
					if what != "" {
						ms = append(ms, Mismatch{What: what, Variant: v.Name, Mode: memoMode})
					}
					continue
				}
				c.Stats.Eval()
				st := pt.Ref.Stats
				if v.Name == "v0" && pt.Ref.OK {
					if n := len(refpeg.Tokens(pt.Ref.Root)); n > 1024 {
						c.Stats.Class("accepted_with_more_than_1024_tokens")
						if st.RevisitSuccess > 0 {
							c.Stats.Class("accepted_with_more_than_1024_tokens_and_a_replayed_success")
						}
					}
				}
				if st.Revisits > 0 && c.Stats.Nontrivial(pt.key(v.Name)) {
					if st.RevisitSuccess > 0 {
						c.Stats.Class("nt_revisit_of_successful_application")
					}
					if st.RevisitFailure > 0 {
						c.Stats.Class("nt_revisit_after_cached_failure")
					}
					if st.RevisitInLookahead > 0 {
						c.Stats.Class("nt_revisit_inside_lookahead")
					}
					if small(pt) && st.RevisitSuccess > 0 {
						c.Stats.Sample(pt.sample(map[string]any{"options": v.Flags(), "revisits": st.Revisits}))
					}
				}
				what := ""
				switch {
				case a.Panic != "" || b.Panic != "":
					what = fmt.Sprintf("panic: memo %q / no memo %q", a.Panic, b.Panic)
				case a.OK != b.OK:
					what = fmt.Sprintf("verdict: memoised ok=%v, DisableMemoize ok=%v (PEG semantics ok=%v)", a.OK, b.OK, pt.Ref.OK)
				case a.OK && !sameObsToks(a.Tokens, b.Tokens):
					what = fmt.Sprintf("tokens: memoised [%s], DisableMemoize [%s]", toksOf(a.Tokens), toksOf(b.Tokens))
				case !a.OK && !sameErrTok(a.ErrTok, b.ErrTok):
					what = fmt.Sprintf("error token: memoised %v, DisableMemoize %v", a.ErrTok, b.ErrTok)
				case v.Name == "v0" && a.OK != pt.Ref.OK:
					what = fmt.Sprintf("both modes ok=%v but PEG semantics ok=%v", a.OK, pt.Ref.OK)
				case v.Name == "v0" && a.OK && !sameToks(a.Tokens, refpeg.Tokens(pt.Ref.Root)):
					what = "both modes agree but differ from the derivation record (C03)"
				}
				if what != "" {
					ms = append(ms, Mismatch{What: what, Variant: v.Name, Mode: noMemoMode})
				}
			}
			return ms
		},
	},
		"well-formed grammars without state-changing predicates, weighted towards shared prefixes and lookahead followed by consumption x ~24-40 inputs x every entry; the same compiled parser (default options, and -inline -switch) is run with Init() and Init(DisableMemoize()); verdict, tokens and on failure the error token must be equal (and equal to the reference); additionally all inputs of a grammar are run in order on ONE reused instance per memo mode and must equal the fresh observations, and after a rejected parse a second Parse without Reset must agree between the memo modes and with a fresh parse. Requests to the memo-free parser are gated by the reference step count. Non-trivial: the reference run entered some (rule, offset) at least twice; distinct = (grammar, entry, input, option set).",
		[]string{"PEG without memoisation is exponential on some grammars: points whose reference run needs more than the step gate run only memoised (counted)"})

	// ------------------------------------------------------------------ C07
	c07Variants := []lab.Variant{lab.V0, lab.N0, lab.N1, lab.N2, lab.N3}
	registerLab(&LabProp{
		ID:            "C07",
		Variants:      c07Variants,
		ReuseModes:    []proto.Mode{memoMode},
		ReuseVariants: []lab.Variant{lab.N0, lab.N3},
		NativeFuzz:    120,
		FuzzOracle:    "verdict",
		Chunks:        func(c *drv.Ctx) int { return c.Pick(1, 8) },
		Opts: func(c *drv.Ctx) lab.CollectOpts {
			return lab.CollectOpts{N: c.Pick(64, 200), Profiles: []string{"actiony", "backtracky", "switchy", "actiony", "liney"},
				Inputs: c.Pick(24, 36), Hostile: true,
				Score: scoreBy(func(r *refpeg.Result, in []rune) int {
					n := 0
					if r.OK {
						n = len(refpeg.ExecTrace(r.Root, in))
					}
					return b2i(len(r.XTrace) > 0) + b2i(len(r.XTrace) > n)*2 + b2i(!r.OK && r.Stats.RestoreAfterConsume > 0)
				})}
		},
		Modes: func(c *drv.Ctx, pt *Point, v lab.Variant) []proto.Mode {
			if v.NoAST && (pt.Ref.Budget || pt.Ref.Stats.Steps > memoFreeBudget(c)) {
				c.Stats.Class("skipped_exponential_without_memo")
				return nil
			}
			return []proto.Mode{memoMode}
		},
		Judge: func(c *drv.Ctx, pt *Point, l *lab.Lab) []Mismatch {
			base := obsOf(pt, "v0", memoMode)
			var ms []Mismatch
			hasCap := pt.Case.G.Count(gram.KCap) > 0
			for _, v := range c07Variants[1:] {
				o := obsOf(pt, v.Name, memoMode)
				if o == nil || o.NilRule {
					continue
				}
				c.Stats.Eval()
				inFailed := len(pt.Ref.XTrace) > 0 && (!pt.Ref.OK || len(pt.Ref.XTrace) > len(refpeg.ExecTrace(pt.Ref.Root, pt.Runes)))
				if pt.Case.G.Count(gram.KAct) > 0 && hasCap && (inFailed || !pt.Ref.OK && pt.Ref.Stats.RestoreAfterConsume > 0) && c.Stats.Nontrivial(pt.key(v.Name)) {
					if inFailed {
						c.Stats.Class("nt_action_reached_in_branch_that_failed")
					}
					if !pt.Ref.OK {
						c.Stats.Class("nt_reject_after_consume")
					}
					if small(pt) && !v.Switch && inFailed {
						c.Stats.Sample(pt.sample(map[string]any{"options": v.Flags(), "expected_inline_trace": fmt.Sprint(pt.Ref.XTrace)}))
					}
				}
				what := ""
				switch {
				case o.Panic != "":
					what = fmt.Sprintf("parser generated with %q panicked: %s", v.Flags(), o.Panic)
				case o.OK != pt.Ref.OK:
					what = fmt.Sprintf("verdict: %q ok=%v, PEG semantics ok=%v", v.Flags(), o.OK, pt.Ref.OK)
				case base != nil && base.Panic == "" && !base.NilRule && o.OK != base.OK:
					what = fmt.Sprintf("verdict: %q ok=%v, default parser ok=%v", v.Flags(), o.OK, base.OK)
				case !v.Switch:
					// actions run inline at the moment they are reached
					if len(o.Trace) != len(pt.Ref.XTrace) {
						what = fmt.Sprintf("inline trace of %q has %d entries, execution order has %d: got %v want %v", v.Flags(), len(o.Trace), len(pt.Ref.XTrace), o.Trace, pt.Ref.XTrace)
					} else {
						for i, t := range o.Trace {
							w := pt.Ref.XTrace[i]
							wt := w.Text
							if !hasCap {
								wt = ""
							}
							if t.ID != "a"+strconv.Itoa(w.ID) || string(t.Text) != wt {
								what = fmt.Sprintf("inline action #%d of %q: got %s text=%q, want a%d text=%q", i, v.Flags(), t.ID, t.Text, w.ID, wt)
								break
							}
						}
					}
				}
				if what != "" {
					ms = append(ms, Mismatch{What: what, Variant: v.Name, Mode: memoMode})
				}
			}
			return ms
		},
	},
		"well-formed grammars with probe actions and captures x ~24-36 inputs x every entry; the four -noast parsers (-noast alone and with -inline/-switch) are compared with the default parser and the reference on verdict; for -noast and -noast -inline the inline probe trace (action id, text) is compared with the execution-order trace of the reference (every action reached, including branches that later fail and lookahead, each with the capture most recently completed in execution order). Under -switch only the verdict is compared (alternatives are legitimately skipped before their leading actions run). Non-trivial: grammar with actions and captures where an action was reached in a branch that later failed, or the input is rejected after consuming; distinct = (grammar, entry, input, option set).",
		[]string{"-noast parsers are memo-free: points whose reference run needs more than the step gate are skipped (counted)"})

	// ------------------------------------------------------------------ C11
	registerLab(&LabProp{
		ID: "C11",
		// the default parser with Pretty off and on, and the -inline and -noast ones. (-switch
		// legitimately skips alternatives whose first character rules them out, and with them
		// the records a lookahead inside them would have completed: its error token is only
		// required to lie within the input, which C13 checks.)
		Variants: []lab.Variant{lab.V0, lab.V1, lab.N0, lab.N1},
		Chunks:   func(c *drv.Ctx) int { return c.Pick(1, 8) },
		Opts: func(c *drv.Ctx) lab.CollectOpts {
			return lab.CollectOpts{N: c.Pick(100, 300), Profiles: []string{"erry", "liney", "erry", "backtracky", "deep"},
				Inputs: c.Pick(28, 40), Hostile: true,
				Score: scoreBy(func(r *refpeg.Result, in []rune) int {
					if r.OK {
						return 0
					}
					s := 1
					if r.ErrTok != nil {
						s += 3 + b2i(strings.ContainsRune(string(in[r.ErrTok.B:r.ErrTok.E]), '\n')) + b2i(r.ErrTok.B > 0)
					}
					return s
				})}
		},
		ReuseModes: []proto.Mode{memoMode},
		Modes: func(c *drv.Ctx, pt *Point, v lab.Variant) []proto.Mode {
			if v.Name != "v0" {
				if v.NoAST && (pt.Ref.Budget || pt.Ref.Stats.Steps > memoFreeBudget(c)) {
					return nil
				}
				return []proto.Mode{memoMode}
			}
			return []proto.Mode{memoMode, prettyMode}
		},
		Judge: func(c *drv.Ctx, pt *Point, l *lab.Lab) []Mismatch {
			var ms []Mismatch
			type vm struct {
				v string
				m proto.Mode
			}
			for _, x := range []vm{{"v0", memoMode}, {"v0", prettyMode}, {"v1", memoMode}, {"n0", memoMode}, {"n1", memoMode}} {
				m := x.m
				o := obsOf(pt, x.v, m)
				if o == nil || o.NilRule {
					continue
				}
				if x.v != "v0" {
					c.Stats.Class("error_of_option_set_" + x.v)
				}
				c.Stats.Eval()
				what := ""
				if o.Panic != "" {
					what = "Parse or Error() panicked: " + o.Panic
				} else if o.OK != pt.Ref.OK {
					what = fmt.Sprintf("Parse returned nil=%v but the entry rule matched=%v", o.OK, pt.Ref.OK)
				} else if !o.OK {
					if x.v == "v0" {
						what = judgeError(c, pt, o, m)
					} else {
						what = judgeError(c, pt, o, m, x.v[0] == 'n')
					}
				}
				if what != "" {
					ms = append(ms, Mismatch{What: what, Variant: x.v, Mode: m})
				}
			}
			return ms
		},
	},
		"well-formed grammars weighted towards newlines and multi-byte runes in terminals x ~28-40 inputs (incl. empty input, failures at offset 0 and at end of input) x every entry, with Pretty off and on, and in order on one reused instance; for rejected inputs the error's token must be the first non-empty record that reached the furthest end during the attempt (reference attempt log) and lie within the input; the message is parsed and its name, 1-based line/symbol of begin and end, and quoted text are compared with the reference line/column model. Non-trivial: rejected input with a non-empty error token; distinct = (grammar, entry, input).",
		[]string{"for an offset that sits on a newline rune both (line, lastcol+1) and (line+1, 0) are accepted (the statement does not settle that case); its use is counted"})

	// ------------------------------------------------------------------ C13
	c13 := &LabProp{
		ID:       "C13",
		Variants: lab.AllVariants,
		// offsets must index the input at hand, also on an instance that has seen other inputs
		ReuseModes: []proto.Mode{memoMode},
		Chunks:     func(c *drv.Ctx) int { return c.Pick(1, 8) },
		Opts: func(c *drv.Ctx) lab.CollectOpts {
			return lab.CollectOpts{N: c.Pick(96, 192), Profiles: []string{"switchy", "plain", "switchy", "liney", "deep", "actiony", "switchy", "backtracky"},
				Inputs: c.Pick(12, 20), Hostile: true, Long: true, MaxRune: true}
		},
		Modes: func(c *drv.Ctx, pt *Point, v lab.Variant) []proto.Mode {
			heavy := pt.Ref.Budget || pt.Ref.Stats.Steps > memoFreeBudget(c)
			if !hostile(pt.Input) {
				// ordinary inputs run too ("every Go string"), once per option set
				if v.NoAST && heavy {
					return nil
				}
				return []proto.Mode{memoMode}
			}
			if v.NoAST {
				if heavy {
					return nil
				}
				return []proto.Mode{memoMode}
			}
			if heavy {
				return []proto.Mode{memoMode}
			}
			return []proto.Mode{memoMode, noMemoMode}
		},
		Judge: func(c *drv.Ctx, pt *Point, l *lab.Lab) []Mismatch {
			isHostile := hostile(pt.Input)
			var ms []Mismatch
			n := len(pt.Runes)
			for _, v := range lab.AllVariants {
				for _, m := range []proto.Mode{memoMode, noMemoMode} {
					o := obsOf(pt, v.Name, m)
					if o == nil || o.NilRule {
						continue
					}
					c.Stats.Eval()
					if !isHostile {
						c.Stats.Class("ordinary_input_runs")
					}
					if isHostile && c.Stats.Nontrivial(pt.key(v.Name, modeKey(m))) {
						for _, k := range hostileClasses(pt.Input) {
							c.Stats.Class("nt_input_" + k)
						}
						if v.Name == "v0" && m == memoMode && len(pt.Input) < 12 && pt.Case.G.Size() < 30 {
							c.Stats.Sample(pt.sample(map[string]any{"options": v.Flags()}))
						}
					}
					what := ""
					switch {
					case o.Panic != "":
						what = fmt.Sprintf("parser generated with %q (%s) panicked: %s", v.Flags(), modeKey(m), o.Panic)
					case o.OK && o.NoAST:
						// a parser without AST records no tokens
					case o.OK:
						what = checkTokenShape(o.Tokens, n, pt.Case.G.Rules[pt.Entry].Name)
						if what == "" && !v.NoAST && pt.Ref.OK && !pt.Ref.Budget && !pt.Ref.Unspecified && !sameToks(o.Tokens, refpeg.Tokens(pt.Ref.Root)) {
							what = fmt.Sprintf("tokens [%s] do not slice the rune sequence the way the derivation does [%s]", toksOf(o.Tokens), refToksOf(refpeg.Tokens(pt.Ref.Root)))
						}
						for _, t := range o.Trace {
							// what an action is handed is the rune sequence sliced by the capture's offsets
							if what != "" {
								break
							}
							c.Stats.Class("action_text_checked_against_rune_slice")
							if t.B < t.E && !utf8.ValidString(pt.Input) && len(pt.Input) == len(pt.Runes) {
								c.Stats.Class("action_text_over_input_of_single_invalid_bytes")
								if strings.ContainsRune(string(pt.Runes[t.B:t.E]), 0xFFFD) {
									c.Stats.Class("action_text_covering_an_invalid_byte")
								}
							}
							if !(0 <= t.B && t.B <= t.E && t.E <= n) {
								what = fmt.Sprintf("action %s is handed begin=%d end=%d, outside the input of %d runes", t.ID, t.B, t.E, n)
							} else if want := string(pt.Runes[t.B:t.E]); string(t.Text) != want {
								what = fmt.Sprintf("action %s is handed text %q, but the rune sequence sliced by its offsets [%d,%d) is %q", t.ID, t.Text, t.B, t.E, want)
							}
						}
					case !o.NoAST && o.ErrTok != nil && !(0 <= o.ErrTok.B && o.ErrTok.B <= o.ErrTok.E && o.ErrTok.E <= n):
						what = fmt.Sprintf("error token %v lies outside the input of %d runes", *o.ErrTok, n)
					}
					if what == "" && v.Name == "v0" && !pt.Ref.Budget && o.OK != pt.Ref.OK {
						what = fmt.Sprintf("verdict ok=%v, PEG semantics ok=%v", o.OK, pt.Ref.OK)
					}
					if what != "" {
						ms = append(ms, Mismatch{What: what, Variant: v.Name, Mode: m})
					}
				}
			}
			for k, d := range pt.Died {
				ms = append(ms, Mismatch{What: "worker process died (crash outside recover): " + firstLine(d), Variant: strings.Split(k, "/")[0], Mode: memoMode})
			}
			return ms
		},
	}
	labProps["C13"] = c13
	drv.Register("C13",
		"well-formed grammars (all profiles, U+10FFFF allowed in terminals) under all eight option sets x every generated input (both memo modes for the hostile ones: empty, NUL, invalid UTF-8 (lone continuation/truncated sequences, 0xFF spliced into sampled strings), non-BMP runes, U+10FFFF, >=1000-rune repetitions); no panic, no worker death; every token satisfies 0<=begin<=end<=len([]rune(input)), tokens are properly nested in post-order, the last token is the entry rule at offset 0; the error token lies within the input; for the default parser the tokens equal the reference derivation (so slicing the rune sequence by a token reproduces what it matched). Non-trivial: the input is hostile (classes above); ordinary inputs are evaluated and counted separately; distinct = (grammar, entry, input, option set, memo mode).",
		[]string{"a hang is reported as inconclusive, never as a violation", "the shipped grammars' parsers (peg, calculator, C, Java, fexl) are exercised with the hostile set in both tiers and by a native coverage-guided campaign in the thorough tier"},
		func(c *drv.Ctx) error {
			if err := runLabProp(c, c13); err != nil || len(c.Violations) > 0 {
				return err
			}
			return c13Shipped(c)
		})
}

// c13Shipped runs the hostile inputs (and, thorough, a native fuzz campaign) through the
// parsers of the shipped grammars and of peg's own grammar.
func c13Shipped(c *drv.Ctx) error {
	sh := loadShipped(c)
	if b, err := os.ReadFile(filepath.Join(c.Repo, "peg.peg")); err == nil {
		// peg's own grammar needs the tree package: take it as a recogniser only if it builds
		_ = b
	}
	if len(sh) == 0 {
		return nil
	}
	l, err := buildShipped(c, sh)
	if err != nil || l == nil {
		return err
	}
	defer l.Close()
	var cases []shippedCase
	for _, s := range sh {
		for _, h := range lab.HostileInputs {
			cases = append(cases, shippedCase{Grammar: s.Dir, Input: proto.QStr(h)})
		}
		for _, in := range s.Samples {
			if len(in) < 4000 {
				cases = append(cases, shippedCase{Grammar: s.Dir, Input: proto.QStr(in + "\xff")}, shippedCase{Grammar: s.Dir, Input: proto.QStr("\x00" + in)}, shippedCase{Grammar: s.Dir, Input: proto.QStr(in + "\U0010FFFF")})
			}
		}
	}
	obs := runShippedInputs(c, l, cases)
	for i, cs := range cases {
		c.Stats.Eval()
		if c.Stats.Nontrivial(drv.Hash("shipped", cs.Grammar, string(cs.Input))) {
			c.Stats.Class("nt_shipped_grammar_hostile_input:" + cs.Grammar)
		}
		what := judgeShipped(obs[i])
		if what == "" {
			for k, o := range obs[i] {
				if o.OK {
					if w := checkTokenRange(o.Tokens, len([]rune(string(cs.Input)))); w != "" {
						what = k + ": " + w
					}
				}
			}
		}
		if what != "" && len(c.Violations) == 0 {
			c.AddViolation(drv.Violation{Property: "C13", Kind: "shipped-input", What: fmt.Sprintf("grammars/%s on input %q: %s", cs.Grammar, string(cs.Input), what), Case: cs})
		}
	}
	if c.Thorough() && len(c.Violations) == 0 {
		shippedNativeFuzz(c, l, sh, 150*time.Second)
	}
	return nil
}

func checkTokenRange(ts []proto.Tok, n int) string {
	for i, t := range ts {
		if !(0 <= t.B && t.B <= t.E && t.E <= n) {
			return fmt.Sprintf("token #%d %v lies outside the input of %d runes", i, t, n)
		}
	}
	return ""
}

func hostileClasses(in string) []string {
	var out []string
	if in == "" {
		out = append(out, "empty")
	}
	if !utf8.ValidString(in) {
		out = append(out, "invalid_utf8")
	}
	if strings.ContainsRune(in, 0) {
		out = append(out, "nul")
	}
	if strings.ContainsRune(in, 0x10FFFF) {
		out = append(out, "max_code_point")
	}
	for _, r := range in {
		if r > 0xFFFF {
			out = append(out, "non_bmp")
			break
		}
	}
	if utf8.RuneCountInString(in) >= 1000 {
		out = append(out, "1000plus_runes")
	}
	if strings.ContainsRune(in, 0xFFFD) && utf8.ValidString(in) {
		out = append(out, "replacement_char")
	}
	return out
}

func hostile(in string) bool { return len(hostileClasses(in)) > 0 }

// checkTokenShape verifies range, nesting and post-order of a token list.
func checkTokenShape(ts []proto.Tok, n int, entry string) string {
	if len(ts) == 0 {
		return "successful parse with an empty token list"
	}
	var stack []proto.Tok
	for i, t := range ts {
		if !(0 <= t.B && t.B <= t.E && t.E <= n) {
			return fmt.Sprintf("token #%d %v lies outside the input of %d runes", i, t, n)
		}
		// post-order: a token adopts the preceding tokens it contains; the rest must lie before it
		for len(stack) > 0 && stack[len(stack)-1].B >= t.B {
			if stack[len(stack)-1].E > t.E {
				return fmt.Sprintf("token #%d %v overlaps an earlier token %v", i, t, stack[len(stack)-1])
			}
			stack = stack[:len(stack)-1]
		}
		if len(stack) > 0 && stack[len(stack)-1].E > t.B {
			return fmt.Sprintf("token #%d %v overlaps an earlier token %v", i, t, stack[len(stack)-1])
		}
		stack = append(stack, t)
	}
	last := ts[len(ts)-1]
	if last.N != entry || last.B != 0 {
		return fmt.Sprintf("last token is %v, want the entry rule %s starting at 0", last, entry)
	}
	return ""
}

func sameErrTok(a, b *proto.Tok) bool {
	if a == nil || b == nil {
		return a == b
	}
	return *a == *b
}

var errRe = regexp.MustCompile(`(?s)^\nparse error near (.*?) \(line (-?\d+) symbol (-?\d+) - line (-?\d+) symbol (-?\d+)\):\n(.*)\n$`)

// judgeError compares the error token and the message of a rejected parse.
func judgeError(c *drv.Ctx, pt *Point, o *proto.Obs, m proto.Mode, noast ...bool) string {
	want := proto.Tok{N: "Unknown"}
	refTok := pt.Ref.ErrTok
	if len(noast) > 0 && noast[0] {
		// a parser generated with -noast records rule applications only
		refTok = pt.Ref.ErrTokRules
	}
	if refTok != nil {
		want = proto.Tok{N: refTok.Name, B: refTok.B, E: refTok.E}
	}
	if m == memoMode && len(noast) == 0 && pt.Ref.ErrTok != nil && c.Stats.Nontrivial(pt.key()) {
		c.Stats.Class("nt_nonempty_error_token")
		if strings.ContainsRune(string(pt.Runes[want.B:want.E]), '\n') {
			c.Stats.Class("nt_token_spans_newline")
		}
		for _, r := range pt.Runes[:want.B] {
			if r >= 0x80 {
				c.Stats.Class("nt_multibyte_before_token")
				break
			}
		}
		if want.E == len(pt.Runes) {
			c.Stats.Class("nt_token_ends_at_end_of_input")
		}
		if small(pt) {
			c.Stats.Sample(pt.sample(map[string]any{"error_token": fmt.Sprintf("%s %d-%d", want.N, want.B, want.E)}))
		}
	}
	if refTok == nil {
		c.Stats.Class("rejected_without_nonempty_token")
	}
	if o.ErrTok == nil {
		return "Parse returned an error that carries no token"
	}
	got := *o.ErrTok
	if !(0 <= got.B && got.B <= got.E && got.E <= len(pt.Runes)) {
		return fmt.Sprintf("error token %v lies outside the input of %d runes", got, len(pt.Runes))
	}
	if got != want {
		return fmt.Sprintf("error token is %v, the first non-empty record reaching the furthest end is %v", got, want)
	}
	mm := errRe.FindStringSubmatch(o.Err)
	if mm == nil {
		return fmt.Sprintf("message %q does not have the documented form", o.Err)
	}
	name := want.N
	if m.Pretty {
		name = "\x1B[34m" + name + "\x1B[m"
	}
	if mm[1] != name {
		return fmt.Sprintf("message names %q, want %q", mm[1], name)
	}
	if q := strconv.Quote(string(pt.Runes[want.B:want.E])); mm[6] != q {
		return fmt.Sprintf("message quotes %s, the text between begin and end is %s", mm[6], q)
	}
	nums := make([]int, 4)
	for i := range nums {
		nums[i], _ = strconv.Atoi(mm[2+i])
	}
	for k, off := range []int{want.B, want.E} {
		line, sym := refpeg.LineCol(pt.Runes, off)
		gl, gs := nums[2*k], nums[2*k+1]
		if gl == line && gs == sym {
			continue
		}
		if off < len(pt.Runes) && pt.Runes[off] == '\n' && gl == line+1 && gs == 0 {
			c.Stats.Class("newline_offset_tolerance_used")
			continue
		}
		which := "begin"
		if k == 1 {
			which = "end"
		}
		return fmt.Sprintf("message reports %s of the token (offset %d) at line %d symbol %d, correct is line %d symbol %d: %q", which, off, gl, gs, line, sym, o.Err)
	}
	return ""
}

func sameTree(a *proto.TNode, b *refpeg.TNode) bool {
	if a == nil || b == nil {
		return (a == nil) == (b == nil)
	}
	if a.N != b.Name || a.B != b.B || a.E != b.E || len(a.K) != len(b.Kids) {
		return false
	}
	for i := range a.K {
		if !sameTree(a.K[i], b.Kids[i]) {
			return false
		}
	}
	return true
}

func astString(a *proto.TNode) string {
	if a == nil {
		return "nil"
	}
	s := fmt.Sprintf("%s[%d,%d]", a.N, a.B, a.E)
	if len(a.K) > 0 {
		var ks []string
		for _, k := range a.K {
			ks = append(ks, astString(k))
		}
		s += "(" + strings.Join(ks, " ") + ")"
	}
	return s
}

func refTreeString(a *refpeg.TNode) string {
	if a == nil {
		return "nil"
	}
	s := fmt.Sprintf("%s[%d,%d]", a.Name, a.B, a.E)
	if len(a.Kids) > 0 {
		var ks []string
		for _, k := range a.Kids {
			ks = append(ks, refTreeString(k))
		}
		s += "(" + strings.Join(ks, " ") + ")"
	}
	return s
}

// treeShape measures what makes a tree interesting for C05.
func treeShape(t *refpeg.TNode, root *refpeg.Node) (depth int, equalSpan, manySiblings, emptyBetween bool) {
	var walk func(n *refpeg.TNode, d int)
	walk = func(n *refpeg.TNode, d int) {
		if d > depth {
			depth = d
		}
		if len(n.Kids) >= 3 {
			manySiblings = true
		}
		for _, k := range n.Kids {
			if k.B == n.B && k.E == n.E {
				equalSpan = true
			}
			walk(k, d+1)
		}
	}
	if t != nil {
		walk(t, 1)
	}
	var walk2 func(n *refpeg.Node)
	walk2 = func(n *refpeg.Node) {
		seenNonEmpty, pendingEmpty := false, false
		for _, k := range n.Kids {
			if k.B == k.E {
				if seenNonEmpty {
					pendingEmpty = true
				}
			} else {
				if pendingEmpty {
					emptyBetween = true
				}
				seenNonEmpty = true
			}
			walk2(k)
		}
	}
	if root != nil {
		walk2(root)
	}
	return
}
