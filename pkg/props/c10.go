package props

import (
	"bytes"
	"encoding/json"
	"fmt"
	"go/parser"
	"go/token"
	"os"
	"sort"
	"strconv"
	"strings"
	"time"
	"unicode"

	"github.com/pointlander/peg/tree"
	"pgregory.net/rapid"

	"verif/pkg/drv"
	"verif/pkg/fe"
	"verif/pkg/gram"
	"verif/pkg/lab"
	"verif/pkg/refpeg"
)

// C10 — documented .peg syntax means what the docs say; malformed text is rejected.

type synCase struct {
	G        *gram.Grammar  `json:"g,omitempty"`
	Spell    []int          `json:"spell,omitempty"`
	Text     string         `json:"text"`
	Inputs   []string       `json:"inputs,omitempty"`
	Mutated  bool           `json:"mutated,omitempty"`
	Features map[string]int `json:"features,omitempty"`
}

// treeNode is the method set of tree's unexported node type that the reader relies on.
type treeNode[N any] interface {
	comparable
	GetType() tree.Type
	String() string
	Front() N
	Next() N
	Len() int
}

func kidsOf[N treeNode[N]](n N) []N {
	var zero N
	var out []N
	for c := n.Front(); c != zero; c = c.Next() {
		out = append(out, c)
		if len(out) > 100000 {
			break
		}
	}
	return out
}

// readExpr converts a rule-tree expression into the verification side's AST; every node type
// has exactly one PEG meaning.
func readExpr[N treeNode[N]](n N) (*gram.Expr, error) {
	one := func(k gram.Kind) (*gram.Expr, error) {
		ks := kidsOf(n)
		if len(ks) != 1 {
			return nil, fmt.Errorf("%v node with %d children", n.GetType(), len(ks))
		}
		c, err := readExpr(ks[0])
		if err != nil {
			return nil, err
		}
		return gram.Un(k, c), nil
	}
	switch n.GetType() {
	case tree.TypeNil:
		return &gram.Expr{K: gram.KEmpty}, nil
	case tree.TypeDot:
		return gram.Dot(), nil
	case tree.TypeName:
		return &gram.Expr{K: gram.KRef, Name: n.String()}, nil
	case tree.TypeCharacter:
		rs := []rune(n.String())
		if len(rs) != 1 {
			return nil, fmt.Errorf("character node holding %d runes (%q)", len(rs), n.String())
		}
		return &gram.Expr{K: gram.KLit, Runes: rs}, nil
	case tree.TypeString:
		return &gram.Expr{K: gram.KLit, Runes: []rune(n.String())}, nil
	case tree.TypeRange:
		ks := kidsOf(n)
		if len(ks) != 2 {
			return nil, fmt.Errorf("range node with %d children", len(ks))
		}
		lo, hi := []rune(ks[0].String()), []rune(ks[1].String())
		if len(lo) != 1 || len(hi) != 1 {
			return nil, fmt.Errorf("range bounds %q-%q", ks[0].String(), ks[1].String())
		}
		return &gram.Expr{K: gram.KClass, Items: []gram.Item{{Lo: lo[0], Hi: hi[0]}}}, nil
	case tree.TypeAlternate, tree.TypeSequence:
		e := &gram.Expr{K: gram.KAlt}
		if n.GetType() == tree.TypeSequence {
			e.K = gram.KSeq
		}
		ks := kidsOf(n)
		for i, k := range ks {
			if e.K == gram.KAlt && i == len(ks)-1 && k.GetType() == tree.TypeNil {
				e.EmptyLast = true
				continue
			}
			c, err := readExpr(k)
			if err != nil {
				return nil, err
			}
			e.Kids = append(e.Kids, c)
		}
		return e, nil
	case tree.TypePeekFor:
		return one(gram.KAnd)
	case tree.TypePeekNot:
		return one(gram.KNot)
	case tree.TypeQuery:
		return one(gram.KOpt)
	case tree.TypeStar:
		return one(gram.KStar)
	case tree.TypePlus:
		return one(gram.KPlus)
	case tree.TypePush:
		return one(gram.KCap)
	case tree.TypeAction:
		return &gram.Expr{K: gram.KAct, Code: n.String()}, nil
	case tree.TypePredicate:
		e := &gram.Expr{K: gram.KPred, Code: n.String(), Pred: -1}
		for i, p := range gram.Predicates {
			if p.Code == n.String() {
				e.Pred = i
			}
		}
		return e, nil
	case tree.TypeStateChange:
		return &gram.Expr{K: gram.KState, Code: n.String()}, nil
	}
	return nil, fmt.Errorf("unexpected node type %v in an expression", n.GetType())
}

// readTree reads the front end's result through the tree package's exported accessors.
func readTree(t *tree.Tree) (g *gram.Grammar, problems []string) {
	g = &gram.Grammar{}
	pendingAlias := ""
	sawAlias := false
	for n := range t.Iterator() {
		switch n.GetType() {
		case tree.TypePackage:
			g.Package = n.String()
		case tree.TypeImport:
			if strings.HasPrefix(n.String(), "=") {
				pendingAlias, sawAlias = n.String()[1:], true
				continue
			}
			g.Imports = append(g.Imports, gram.Import{Alias: pendingAlias, Path: n.String()})
			pendingAlias, sawAlias = "", false
		case tree.TypePeg:
			g.Struct = n.String()
			ks := kidsOf(n)
			if len(ks) != 1 || ks[0].GetType() != tree.TypeState {
				problems = append(problems, fmt.Sprintf("parser declaration node with %d children", len(ks)))
			} else {
				g.Fields = ks[0].String()
			}
		case tree.TypeComment:
			g.Header = append(g.Header, n.String())
		case tree.TypeSpace:
		case tree.TypeRule:
			ks := kidsOf(n)
			if len(ks) != 1 {
				problems = append(problems, fmt.Sprintf("rule %s has %d expressions (builder stack out of step)", n.String(), len(ks)))
				continue
			}
			e, err := readExpr(ks[0])
			if err != nil {
				problems = append(problems, fmt.Sprintf("rule %s: %v", n.String(), err))
				continue
			}
			g.Rules = append(g.Rules, &gram.Rule{Name: n.String(), Body: e})
		default:
			problems = append(problems, fmt.Sprintf("left-over %v node %q at top level (builder stack out of step)", n.GetType(), n.String()))
		}
	}
	if sawAlias {
		problems = append(problems, "import alias without an import path")
	}
	// resolve names
	idx := map[string]int{}
	for i, r := range g.Rules {
		if _, ok := idx[r.Name]; !ok {
			idx[r.Name] = i
		}
	}
	for _, r := range g.Rules {
		r.Body.Walk(func(e *gram.Expr) {
			if e.K == gram.KRef {
				if i, ok := idx[e.Name]; ok {
					e.Rule, e.Name = i, ""
				}
			}
		})
	}
	g.Number()
	return g, problems
}

// separatingInputs derives, from sampled strings, inputs that tell apart the possible
// meanings of terminals: case flips and the neighbours of every rune.
func separatingInputs(samples [][]rune) []string {
	seen := map[string]bool{}
	var out []string
	add := func(r []rune) {
		s := string(r)
		if !seen[s] && len(out) < 400 {
			seen[s] = true
			out = append(out, s)
		}
	}
	for _, s := range samples {
		add(s)
		for i := 0; i < len(s) && i < 10; i++ {
			for _, d := range []rune{-1, 1} {
				c := append([]rune{}, s...)
				c[i] += d
				if c[i] >= 0 && c[i] <= unicode.MaxRune && !(c[i] >= 0xD800 && c[i] <= 0xDFFF) {
					add(c)
				}
			}
			if unicode.IsLetter(s[i]) {
				c := append([]rune{}, s...)
				if unicode.IsUpper(c[i]) {
					c[i] = unicode.ToLower(c[i])
				} else {
					c[i] = unicode.ToUpper(c[i])
				}
				add(c)
			}
		}
	}
	return out
}

// compareDenotation checks that the observed grammar means what the expected one means.
func compareDenotation(want, got *gram.Grammar, inputs []string) string {
	if got.Package != want.Package {
		return fmt.Sprintf("package %q, want %q", got.Package, want.Package)
	}
	if got.Struct != want.Struct {
		return fmt.Sprintf("parser name %q, want %q", got.Struct, want.Struct)
	}
	if got.Fields != want.Fields {
		return fmt.Sprintf("parser state variables %q, want %q", got.Fields, want.Fields)
	}
	if fmt.Sprint(got.Imports) != fmt.Sprint(want.Imports) {
		return fmt.Sprintf("imports %v, want %v", got.Imports, want.Imports)
	}
	if fmt.Sprintf("%q", got.Header) != fmt.Sprintf("%q", want.Header) {
		return fmt.Sprintf("header comments %q, want %q", got.Header, want.Header)
	}
	if len(got.Rules) != len(want.Rules) {
		return fmt.Sprintf("%d rules, want %d", len(got.Rules), len(want.Rules))
	}
	for i := range want.Rules {
		if got.Rules[i].Name != want.Rules[i].Name {
			return fmt.Sprintf("rule #%d is named %q, want %q", i, got.Rules[i].Name, want.Rules[i].Name)
		}
	}
	// code of actions, predicates and state changes in textual order
	codes := func(g *gram.Grammar) (out []string) {
		for _, r := range g.Rules {
			r.Body.Walk(func(e *gram.Expr) {
				switch e.K {
				case gram.KAct, gram.KState:
					out = append(out, e.K.String()+":"+e.Code)
				case gram.KPred:
					c := e.Code
					if c == "" {
						c = gram.Predicates[e.Pred].Code
					}
					out = append(out, "pred:"+c)
				}
			})
		}
		return
	}
	cw, cg := codes(want), codes(got)
	if fmt.Sprintf("%q", cw) != fmt.Sprintf("%q", cg) {
		return fmt.Sprintf("embedded Go code %q, want %q", cg, cw)
	}
	if !got.WellFormed() {
		return "the tree built from a well-formed grammar is not well-formed (left recursion, undefined name or nullable repetition)"
	}
	for e := range want.Rules {
		for _, in := range inputs {
			rs := []rune(in)
			a := refpeg.Run(want, e, rs, 100000)
			b := refpeg.Run(got, e, rs, 100000)
			if a.Budget || b.Budget || a.Unspecified || b.Unspecified {
				continue
			}
			if a.OK != b.OK || a.End != b.End || refToksOf(refpeg.Tokens(a.Root)) != refToksOf(refpeg.Tokens(b.Root)) {
				return fmt.Sprintf("rule %s on input %q: the text as read by peg gives ok=%v end=%d [%s], the documented meaning gives ok=%v end=%d [%s]",
					want.Rules[e].Name, in, b.OK, b.End, refToksOf(refpeg.Tokens(b.Root)), a.OK, a.End, refToksOf(refpeg.Tokens(a.Root)))
			}
		}
	}
	return ""
}

func emptyTerminalShape(toks []fe.Token, text string) bool {
	rs := []rune(text)
	for _, t := range toks {
		if t.Rule != "Literal" && t.Rule != "Class" {
			continue
		}
		if t.Begin < 0 || t.End > len(rs) || t.Begin > t.End {
			continue
		}
		s := strings.TrimSpace(string(rs[t.Begin:t.End]))
		if i := strings.IndexAny(s, " \t\r\n#/"); i > 0 {
			s = s[:i]
		}
		switch s {
		case "''", `""`, "[]", "[[]]":
			return true
		}
	}
	return false
}

// judgeSyntax evaluates one case (valid rendering or mutated text).
func judgeSyntax(cs *synCase, openF2 bool) (what string, excluded bool) {
	res := fe.Parse(cs.Text, false, false, false)
	if res.Panic != "" {
		return "the front end panicked: " + res.Panic, false
	}
	if !cs.Mutated {
		if res.Err != nil {
			return "a grammar in the documented syntax is rejected: " + strings.TrimSpace(res.Err.Error()), false
		}
		got, problems := readTree(res.Tree)
		if len(problems) > 0 {
			return "tree built from a valid grammar is inconsistent: " + strings.Join(problems, "; "), false
		}
		if what := compareDenotation(cs.G, got, cs.Inputs); what != "" {
			return what, false
		}
		return importsAfterGeneration(cs, res.Tree), false
	}
	if res.Err != nil {
		return "", false // rejected cleanly
	}
	if openF2 && emptyTerminalShape(res.Tokens, cs.Text) {
		return "", true
	}
	got, problems := readTree(res.Tree)
	defs := 0
	for _, t := range res.Tokens {
		if t.Rule == "Definition" {
			defs++
		}
	}
	if len(problems) == 0 && defs != len(got.Rules) {
		problems = append(problems, fmt.Sprintf("the text has %d definitions but the tree has %d rules (silently different parser)", defs, len(got.Rules)))
	}
	if len(problems) == 0 && (got.Package == "" || got.Struct == "") {
		problems = append(problems, "accepted text without package or parser declaration")
	}
	if len(problems) > 0 {
		return "text accepted by the front end, but the tree is inconsistent: " + strings.Join(problems, "; "), false
	}
	// generation must not crash on whatever was accepted
	res.Tree.Strict = true
	panicked := ""
	func() {
		defer func() {
			if r := recover(); r != nil {
				panicked = fmt.Sprint(r)
			}
		}()
		var buf bytes.Buffer
		_ = res.Tree.Compile("g.peg.go", []string{"peg"}, &buf)
	}()
	if panicked != "" {
		return "text accepted by the front end, but generation panics: " + panicked, false
	}
	return "", false
}

var c10ActionCodes = []string{" p.N++ ", " if p.N > 0 { p.N-- } ", " for i := 0; i < 2; i++ { if i > 0 { p.N++ } } ", "{}", " p.S = \"<-\" ", "\n p.N++\n", " // c\n p.N++\n ", "",
	// quotes that are not string delimiters, with braces between them and the next real string
	" if c := '\"'; c == 34 { p.S = \"q\" } ", " p.S = `\"`; if p.N > 0 { p.S = \"x\" } ", " if p.S == \"\\\"\" { p.N++ }; p.S = \"y\" ", " /* \" */ if p.N > 0 { p.S = \"z\" } "}

func c10Gen(t *rapid.T) synCase {
	prof := rapid.SampledFrom([]string{"plain", "liney", "switchy", "deep"}).Draw(t, "profile")
	p := gram.Profiles[prof]
	p.MaxRune = true
	p.Hostile += 25
	p.MaxRules = 4
	var g *gram.Grammar
	for tries := 0; ; tries++ {
		g = gram.WellFormedGrammar(t, p)
		if g.WellFormed() || tries > 20 {
			break
		}
	}
	// widen terminals over the whole code-point range (surrogates are not code points of text)
	wide := func(label string) rune {
		r := rune(rapid.Int32Range(0, 0x10FFFF).Draw(t, label))
		if r >= 0xD800 && r <= 0xDFFF {
			r = 0xFFFD
		}
		return r
	}
	for _, r := range g.Rules {
		r.Body.Walk(func(e *gram.Expr) {
			switch e.K {
			case gram.KLit:
				if rapid.IntRange(0, 3).Draw(t, "wide?") == 0 {
					i := rapid.IntRange(0, len(e.Runes)-1).Draw(t, "widx")
					if rapid.Bool().Draw(t, "low") {
						e.Runes[i] = rune(rapid.IntRange(0, 0o377).Draw(t, "lowr"))
					} else {
						e.Runes[i] = wide("wr")
					}
				}
			case gram.KClass:
				if rapid.IntRange(0, 3).Draw(t, "widec?") == 0 {
					lo := wide("clo")
					if lo > 0x10FFF0 {
						lo = 0x10FFF0
					}
					it := gram.Item{Lo: lo, Hi: lo + rune(rapid.IntRange(0, 3).Draw(t, "cw"))}
					if it.Hi >= 0xD800 && it.Lo <= 0xDFFF {
						it = gram.Item{Lo: 0xE000, Hi: 0xE001}
					}
					if !e.CI || (!unicode.IsLetter(it.Lo) && !unicode.IsLetter(it.Hi)) {
						cand := append(append([]gram.Item{}, e.Items...), it)
						if gram.ClassSafe(cand) {
							e.Items = cand
						}
					}
				}
				if e.CI && rapid.IntRange(0, 2).Draw(t, "mixedci?") == 0 {
					// a case-insensitive range whose bounds mix a letter with a caseless
					// character; only inputs on which both readings agree are judged
					it := rapid.SampledFrom([]gram.Item{{Lo: 'a', Hi: '~'}, {Lo: 'a', Hi: '{'}, {Lo: '0', Hi: 'z'}, {Lo: '0', Hi: 'f'}, {Lo: '!', Hi: 'c'}, {Lo: 'x', Hi: '}'}, {Lo: '9', Hi: 'b'}}).Draw(t, "mixedci")
					cand := append(append([]gram.Item{}, e.Items...), it)
					if gram.ClassSafe(cand) {
						e.Items = cand
					}
				}
			case gram.KAct:
				e.Code = rapid.SampledFrom(c10ActionCodes).Draw(t, "code")
			case gram.KState:
				e.Code = " p.N++ "
			}
		})
	}
	g.Package = rapid.SampledFrom([]string{"g", "main", "my_pkg", "P2"}).Draw(t, "pkg")
	g.Struct = rapid.SampledFrom([]string{"G", "Parser", "calc_1"}).Draw(t, "struct")
	g.Fields = rapid.SampledFrom([]string{"\n N int\n S string\n", " N int; S string ", "\n\tN int\n\tS string\n\tM map[string]struct{ x int }\n"}).Draw(t, "fields")
	if rapid.Bool().Draw(t, "imports?") {
		n := rapid.IntRange(1, 3).Draw(t, "nimp")
		for i := 0; i < n; i++ {
			im := gram.Import{Path: rapid.SampledFrom([]string{"strings", "math/big", "github.com/a-b/c_d/v2", "x.y/z", "fmt", "strconv", "os", "slices"}).Draw(t, "ipath")}
			if rapid.Bool().Draw(t, "alias?") {
				im.Alias = rapid.SampledFrom([]string{"m", "_x", "Big1"}).Draw(t, "ialias")
			}
			g.Imports = append(g.Imports, im)
		}
	}
	if rapid.Bool().Draw(t, "header?") {
		g.Header = []string{rapid.SampledFrom([]string{" c", "", "x <- y", " 世界 \" ' \\"}).Draw(t, "hdr")}
	}
	g.Number()
	cs := synCase{G: g}
	cs.Spell = rapid.SliceOfN(rapid.IntRange(0, 1<<12), 40, 40).Draw(t, "spell")
	if rapid.IntRange(0, 3).Draw(t, "sparse?") != 0 {
		for i := range cs.Spell {
			if rapid.IntRange(0, 2).Draw(t, "z") != 0 {
				cs.Spell[i] = 0
			}
		}
	}
	sp := &gram.Spell{V: cs.Spell}
	pr := gram.Printer{G: g, S: sp}
	cs.Text = pr.Text()
	cs.Features = sp.Used
	ch := gram.RapidChooser{T: t}
	var samples [][]rune
	for e := range g.Rules {
		for k := 0; k < 4; k++ {
			samples = append(samples, gram.Sample(g, e, ch, 16))
		}
	}
	cs.Inputs = separatingInputs(samples)
	return cs
}

var mutationChars = []string{"'", "\"", "[", "]", "[[", "]]", "{", "}", "(", ")", "<", ">", "<-", "←", "/", "\\", "#", "//", "&", "!", "?", "*", "+", ".", "^", "-", "\n", " ", "\x00", "\xff", "é", "package", "type", "Peg", "import", "''", "\"\"", "[]"}

func c10Mutate(t *rapid.T, cs synCase) synCase {
	b := []byte(cs.Text)
	n := rapid.IntRange(1, 3).Draw(t, "nmut")
	for i := 0; i < n && len(b) > 0; i++ {
		pos := rapid.IntRange(0, len(b)-1).Draw(t, "mpos")
		switch rapid.IntRange(0, 5).Draw(t, "mkind") {
		case 0: // delete a slice
			l := rapid.IntRange(1, 6).Draw(t, "mlen")
			if pos+l > len(b) {
				l = len(b) - pos
			}
			b = append(b[:pos], b[pos+l:]...)
		case 1: // insert a syntax fragment
			s := rapid.SampledFrom(mutationChars).Draw(t, "mins")
			b = append(b[:pos], append([]byte(s), b[pos:]...)...)
		case 2: // truncate
			b = b[:pos]
		case 3: // duplicate a slice
			l := rapid.IntRange(1, 12).Draw(t, "mdup")
			if pos+l > len(b) {
				l = len(b) - pos
			}
			b = append(b[:pos+l], append(append([]byte{}, b[pos:pos+l]...), b[pos+l:]...)...)
		case 4: // replace a byte
			s := rapid.SampledFrom(mutationChars).Draw(t, "mrep")
			b = append(b[:pos], append([]byte(s), b[pos+1:]...)...)
		case 5: // swap two slices
			q := rapid.IntRange(0, len(b)-1).Draw(t, "mq")
			b[pos], b[q] = b[q], b[pos]
		}
	}
	return synCase{Text: string(b), Mutated: true}
}

func c10Shard(c *drv.Ctx, shard, checks int) (*drv.Stats, *drv.Violation, error) {
	st := drv.NewStats()
	fnd, _ := drv.LoadFindings(c.Verif)
	_, openF2 := fnd.OpenShapes("C10")["empty-literal-or-class"]
	var last *synCase
	var lastWhat string
	guard := &drv.ShrinkGuard{Budget: time.Duration(c.Pick(30, 90)) * time.Second}
	prop := func(t *rapid.T) {
		cs := c10Gen(t)
		if rapid.IntRange(0, 2).Draw(t, "mutate?") == 0 {
			cs = c10Mutate(t, cs)
		}
		// the inputs are part of the case: the same text with inputs that do not separate
		// the two meanings is a different (passing) case
		key := drv.Hash(cs.Text, fmt.Sprint(cs.Mutated), strings.Join(cs.Inputs, "\x00"))
		what, known := guard.Known(key)
		if !known && guard.Expired() {
			t.Skip("shrink budget exhausted")
		}
		if !known {
			st.Eval()
			var excl bool
			what, excl = judgeSyntax(&cs, openF2)
			if excl {
				st.Class("excluded_by_known_finding:empty-literal-or-class")
			}
			if what != "" {
				guard.Record(key, what)
			}
		}
		if what != "" {
			cp := cs
			last, lastWhat = &cp, what
			t.Fatalf("%s", what)
		}
		if cs.Mutated {
			res := fe.Parse(cs.Text, false, false, false)
			switch {
			case res.Err != nil:
				st.Class("mutated_rejected")
				if st.Nontrivial(key) {
					st.Class("nt_mutated_text_rejected")
				}
			default:
				st.Class("mutated_still_accepted")
				if st.Nontrivial(key) {
					st.Class("nt_mutated_text_accepted_and_consistent")
				}
			}
			return
		}
		distinct := 0
		for k, n := range cs.Features {
			st.ClassN("spelling:"+k, int64(n))
			distinct++
		}
		if distinct >= 3 && st.Nontrivial(key) {
			st.Class("nt_valid_rendering_3plus_spelling_features")
			if len(cs.Text) < 400 {
				st.Sample(map[string]any{"text": strings.Split(cs.Text, "\n"), "spelling_features": sortedKeys(cs.Features), "separating_inputs": len(cs.Inputs)})
			}
		}
	}
	res := drv.RunRapid("C10", checks, drv.ShardSeed(c.Seed, "c10", shard), time.Duration(c.Pick(30, 90))*time.Second, prop)
	if res.Failed {
		if last == nil {
			return st, nil, fmt.Errorf("rapid failed without a recorded case: %s", res.Log)
		}
		desc := lastWhat + "\n--- text ---\n" + last.Text
		if last.G != nil {
			desc += "\n--- intended grammar ---\n" + strings.TrimSpace(last.G.String())
		}
		return st, &drv.Violation{Property: "C10", Kind: "syntax-text", What: desc, Case: last}, nil
	}
	st.ClassN("rapid_checks_passed", int64(res.Passed))
	return st, nil, nil
}

// c10Escapes enumerates every escape spelling of every code point class exhaustively for
// the small ranges (all octal values, all letter/punctuation escapes) - a finite space.
func c10Escapes(c *drv.Ctx) {
	check := func(spelled string, want rune, quote string) string {
		text := "package g\ntype G Peg {}\nR0 <- " + quote + spelled + quote + "\n"
		res := fe.Parse(text, false, false, false)
		if res.Panic != "" || res.Err != nil {
			return fmt.Sprintf("escape %s inside %s%s is not accepted: %v %s", spelled, quote, quote, res.Err, res.Panic)
		}
		got, problems := readTree(res.Tree)
		if len(problems) > 0 || len(got.Rules) != 1 {
			return fmt.Sprintf("escape %s: inconsistent tree %v", spelled, problems)
		}
		for _, r := range []rune{want - 1, want, want + 1} {
			if r < 0 || r > unicode.MaxRune || (r >= 0xD800 && r <= 0xDFFF) {
				continue
			}
			x := refpeg.Run(got, 0, []rune{r}, 1000)
			if x.OK != (r == want) {
				return fmt.Sprintf("escape %s inside %s%s: input U+%04X accepted=%v, but the escape denotes U+%04X", spelled, quote, quote, r, x.OK, want)
			}
		}
		return ""
	}
	type esc struct {
		s string
		r rune
	}
	var all []esc
	for r := rune(0); r <= 0o377; r++ {
		all = append(all, esc{fmt.Sprintf(`\%03o`, r), r})
		if r <= 0o77 {
			all = append(all, esc{fmt.Sprintf(`\%o`, r), r})
			all = append(all, esc{fmt.Sprintf(`\%02o`, r), r})
		}
		all = append(all, esc{fmt.Sprintf(`\0x%x`, r), r}, esc{fmt.Sprintf(`\0x%02X`, r), r})
	}
	for _, r := range []rune{0x100, 0x7FF, 0x800, 0xD7FF, 0xE000, 0xFFFD, 0xFFFF, 0x10000, 0x10FFFE, 0x10FFFF} {
		all = append(all, esc{fmt.Sprintf(`\0x%X`, r), r}, esc{fmt.Sprintf(`\0x%06x`, r), r})
	}
	for s, r := range map[string]rune{`\a`: 7, `\b`: 8, `\e`: 0x1b, `\f`: 12, `\n`: 10, `\r`: 13, `\t`: 9, `\v`: 11, `\'`: '\'', `\"`: '"', `\[`: '[', `\]`: ']', `\-`: '-', `\\`: '\\'} {
		all = append(all, esc{s, r})
	}
	sort.Slice(all, func(i, j int) bool { return all[i].s < all[j].s })
	for _, e := range all {
		for _, q := range []string{"'", "\""} {
			c.Stats.Eval()
			if c.Stats.Nontrivial(drv.Hash("escape", e.s, q)) {
				c.Stats.Class("nt_escape_spelling_checked")
			}
			if what := check(e.s, e.r, q); what != "" && len(c.Violations) == 0 {
				cs := &synCase{Text: "package g\ntype G Peg {}\nR0 <- " + q + e.s + q + "\n", G: &gram.Grammar{Package: "g", Struct: "G", Rules: []*gram.Rule{{Name: "R0", Body: &gram.Expr{K: gram.KLit, Runes: []rune{e.r}}}}},
					Inputs: []string{string(e.r), string(e.r - 1), string(e.r + 1)}}
				c.AddViolation(drv.Violation{Property: "C10", Kind: "syntax-text", What: what, Case: cs})
			}
		}
	}
	// where an escape ends: \ooo takes three digits only when the first is 0-3, otherwise
	// two at most, so a digit behind a complete escape is a character of its own
	checkSeq := func(spelled string, want []rune, quote string) string {
		text := "package g\ntype G Peg {}\nR0 <- " + quote + spelled + quote + " !.\n"
		res := fe.Parse(text, false, false, false)
		if res.Panic != "" || res.Err != nil {
			return fmt.Sprintf("%s inside %s%s is not accepted: %v %s", spelled, quote, quote, res.Err, res.Panic)
		}
		got, problems := readTree(res.Tree)
		if len(problems) > 0 || len(got.Rules) != 1 {
			return fmt.Sprintf("%s: inconsistent tree %v", spelled, problems)
		}
		if x := refpeg.Run(got, 0, want, 1000); !x.OK {
			return fmt.Sprintf("%s inside %s%s denotes the %d characters %q (the escape is complete before its last character), but that input is rejected", spelled, quote, quote, len(want), string(want))
		}
		return ""
	}
	type seq struct {
		s string
		r []rune
	}
	var seqs []seq
	for r := rune(0); r <= 0o377; r++ {
		for _, d := range "0789" {
			seqs = append(seqs, seq{fmt.Sprintf(`\%03o%c`, r, d), []rune{r, d}})
		}
	}
	for r := rune(0o40); r <= 0o77; r++ {
		for _, d := range "0789" {
			seqs = append(seqs, seq{fmt.Sprintf(`\%02o%c`, r, d), []rune{r, d}})
		}
	}
	for r := rune(0); r <= 7; r++ {
		for _, d := range "89" {
			seqs = append(seqs, seq{fmt.Sprintf(`\%o%c`, r, d), []rune{r, d}})
		}
	}
	for _, e := range seqs {
		for _, q := range []string{"'", "\""} {
			c.Stats.Eval()
			if c.Stats.Nontrivial(drv.Hash("escape-end", e.s, q)) {
				c.Stats.Class("nt_end_of_octal_escape_checked")
			}
			if what := checkSeq(e.s, e.r, q); what != "" && len(c.Violations) == 0 {
				cs := &synCase{Text: "package g\ntype G Peg {}\nR0 <- " + q + e.s + q + " !.\n", G: &gram.Grammar{Package: "g", Struct: "G", Rules: []*gram.Rule{{Name: "R0", Body: gram.Seq(&gram.Expr{K: gram.KLit, Runes: e.r, CI: q == "\""}, gram.Un(gram.KNot, &gram.Expr{K: gram.KDot}))}}},
					Inputs: []string{string(e.r)}}
				c.AddViolation(drv.Violation{Property: "C10", Kind: "syntax-text", What: what, Case: cs})
			}
		}
	}
	// a backslash in front of any other character is no escape: the text is malformed
	documented := "ABEFNRTVabefnrtv'\"[]-\\01234567"
	for ch := rune(33); ch <= 126; ch++ {
		if strings.ContainsRune(documented, ch) {
			continue
		}
		for _, form := range []string{"'\\%c'", "\"\\%c\"", "[\\%c]", "[[\\%c]]", "'a\\%cb'", "[a\\%c-z]"} {
			lit := fmt.Sprintf(form, ch)
			text := "package g\ntype G Peg {}\nR0 <- " + lit + "\n"
			c.Stats.Eval()
			if c.Stats.Nontrivial(drv.Hash("undocumented-escape", lit)) {
				c.Stats.Class("nt_undocumented_escape_must_be_rejected")
			}
			res := fe.Parse(text, false, false, false)
			if res.Err == nil && res.Panic == "" && len(c.Violations) == 0 {
				cs := &synCase{Text: text, Mutated: true}
				c.AddViolation(drv.Violation{Property: "C10", Kind: "syntax-text", What: fmt.Sprintf("%s is accepted, although a backslash followed by %q is not one of the documented escapes", lit, string(ch)), Case: cs})
			}
		}
	}
	c.Stats.Extra["escape_table_exhaustive"] = true
}

// FuzzSyntaxOracle is the C10 oracle for arbitrary text, used by the native fuzz target. The
// open known finding F2 (empty literal / class) is excluded inside the target so that a
// campaign is not ended in seconds by a known shallow defect.
func FuzzSyntaxOracle(text string) (what string, excluded bool) {
	cs := synCase{Text: text, Mutated: true}
	return judgeSyntax(&cs, true)
}

// FrontEndFuzzSeeds are small valid grammars and hostile constants for the fuzz corpus.
func FrontEndFuzzSeeds() []string {
	return []string{
		"package g\ntype G Peg {}\nS <- 'a' / \"b\" / [c-d] / [[e]] / [^f] / . / &'x' !'y' <'z'>* { } &{true} !{ } T? T+\nT <- '\\n' '\\0x41' '\\101' '\\7'\n",
		"package g\nimport m \"math\"\nimport (\n\t\"fmt\"\n)\ntype G Peg { x int }\n# c\n// c\nS \u2190 ()\n",
		"package A type A Peg{}e<-e<-{}",
		"", "\x00", "\xff", "package", "package g\ntype G Peg {}\n", "S <- ''", "S <- []", "S <- [[]]",
	}
}

func init() {
	drv.RegisterShard("c10", c10Shard)
	drv.RegisterReplay("syntax-text", func(c *drv.Ctx, raw json.RawMessage) (string, error) {
		var cs synCase
		if err := json.Unmarshal(raw, &cs); err != nil {
			return "", err
		}
		if cs.G != nil {
			cs.G.Number()
		}
		fnd, _ := drv.LoadFindings(c.Verif)
		_, openF2 := fnd.OpenShapes("C10")["empty-literal-or-class"]
		_ = openF2
		what, _ := judgeSyntax(&cs, false)
		return what, nil
	})
	drv.Register("C10",
		"(a) rapid-generated grammar ASTs (terminals over the whole code-point range, case-insensitive literals and classes, negated classes, nested action braces, imports with and without alias, header comments) rendered under a 40-entry drawn spelling vector (blank/tab/LF/CRLF/CR spacing, # and // comments, both arrows, every escape spelling incl. octal 1-3 digits and \\0x hex, either quote for caseless runes, [[..]] for caseless classes, redundant and minimal parentheses, grouped imports); the front end must accept, and the tree read back through the exported accessors must denote the same language: package, parser name, fields, imports(path, alias), header, rule names and embedded code are compared exactly, and both ASTs are run through the reference interpreter from every rule on separating inputs (samples, every rune +-1, case flips) and must agree on verdict, end and records. (b) one third of the cases are byte/token-level mutations of such renderings: the outcome must be a clean parse error, or acceptance with an internally consistent tree (as many rule nodes as Definition tokens, one expression per rule, no left-over builder nodes, generation does not panic). (c) the escape table is enumerated exhaustively (every octal value in 1-3 digit forms, hex forms, letter and punctuation escapes, in both quotes). Non-trivial: a valid rendering using >=3 distinct non-canonical spelling features, a mutated text, an escape spelling; distinct = text.",
		[]string{
			"upper-case escape letters, case-insensitivity of non-ASCII letters and escaped letters inside double quotes are undocumented and not generated",
			"for arbitrary mutated text there is no independent parser: internal consistency of the builder is the executable form of 'never a silently different or empty parser'",
		},
		func(c *drv.Ctx) error {
			c10Escapes(c)
			if len(c.Violations) > 0 {
				return nil
			}
			if err := drv.RunSharded(c, "c10", c.Pick(12000, 240000), c.Pick(8, 16), 30*time.Minute); err != nil || len(c.Violations) > 0 || !c.Thorough() {
				return err
			}
			return c10NativeFuzz(c)
		})
	_ = lab.V0
}

// c10NativeFuzz runs the coverage-guided campaign on the front end (thorough tier).
func c10NativeFuzz(c *drv.Ctx) error {
	dir := os.Getenv("VERIF_FUZZFE_DIR")
	if dir == "" {
		c.Notes = append(c.Notes, "native fuzz target not rendered (run through ./check)")
		return nil
	}
	res, err := runNativeFuzz(c, dir, "FuzzFrontEnd", 120*time.Second, "VERIF_REPO="+c.Repo)
	if err != nil {
		c.Notes = append(c.Notes, "native fuzzing did not run: "+firstLine(err.Error()))
		return nil
	}
	c.Stats.Extra["native_fuzz_execs"] = res.Execs
	c.Stats.Extra["native_fuzz_seconds"] = res.Seconds
	c.Stats.Evaluations += res.Execs
	if res.Failed {
		text := ""
		if len(res.Args) > 0 {
			text = res.Args[0]
		}
		cs := &synCase{Text: text, Mutated: true}
		what, _ := judgeSyntax(cs, true)
		if what == "" {
			// only what reproduces in process is a violation (the engine also stops on a slow execution)
			c.Stats.Class("native_fuzz_stopped_without_reproducible_failure")
			c.Notes = append(c.Notes, "native fuzzing stopped on a text that does not reproduce in process: "+strconv.Quote(text))
			return nil
		}
		c.AddViolation(drv.Violation{Property: "C10", Kind: "syntax-text", What: what + "\n--- text (found by go test -fuzz) ---\n" + text, Case: cs})
	}
	return nil
}

// importsAfterGeneration: "imports keep their path and alias" must still be true of the
// emitted file, where the user's imports are merged with the runtime's own.
func importsAfterGeneration(cs *synCase, t *tree.Tree) string {
	if len(cs.G.Imports) == 0 {
		return ""
	}
	var buf bytes.Buffer
	panicked := ""
	var err error
	func() {
		defer func() {
			if r := recover(); r != nil {
				panicked = fmt.Sprint(r)
			}
		}()
		t.Strict = true
		err = t.Compile("g.peg.go", []string{"peg"}, &buf)
	}()
	if panicked != "" {
		return "generation panics: " + panicked
	}
	if err != nil {
		return "" // e.g. action code that is not Go: outside this property
	}
	f, perr := parser.ParseFile(token.NewFileSet(), "g.peg.go", buf.Bytes(), parser.ImportsOnly)
	if perr != nil {
		return ""
	}
	have := map[string]bool{}
	for _, sp := range f.Imports {
		p, _ := strconv.Unquote(sp.Path.Value)
		a := ""
		if sp.Name != nil {
			a = sp.Name.Name
		}
		have[p+"="+a] = true
	}
	for _, im := range cs.G.Imports {
		if !have[im.Path+"="+im.Alias] {
			return fmt.Sprintf("import %s %q of the grammar is missing from the generated file, or lost its alias (file imports %v)", im.Alias, im.Path, sortedKeys(have))
		}
	}
	return ""
}
