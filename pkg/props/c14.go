package props

import (
	"encoding/json"
	"fmt"
	"strings"
	"time"

	"verif/pkg/drv"
	"verif/pkg/lab"
	"verif/pkg/lab/proto"
)

// C14 — independent parser instances do not interfere under concurrency.
// The compiled runner is built with -race; goroutines own their instances from Init to the
// last observation and start behind a barrier.

type concReplay struct {
	Cases []*lab.Case `json:"cases"`
	Jobs  []proto.Job `json:"jobs"`
	Procs int         `json:"procs"`
}

func c14Jobs(cases []*lab.Case, lo, n, perJob int, mixed bool, rot int) []proto.Job {
	var jobs []proto.Job
	for j := 0; j < n; j++ {
		cs := cases[lo]
		v := "v0"
		if mixed && j%2 == 1 {
			cs = cases[(lo+1)%len(cases)]
			v = "v3"
		}
		if j%4 == 3 {
			v = "v3"
		}
		if j%5 == 2 {
			// a parser without AST runs its actions during the parse: other state, same promise
			v = "n0"
		}
		var steps []proto.Step
		for k := 0; k < perJob; k++ {
			in := cs.Inputs[(j*5+k*3+rot)%len(cs.Inputs)]
			if len(in) > 300 {
				in = cs.Inputs[0]
			}
			st := proto.Step{Entry: (j + k) % len(cs.G.Rules), Input: in}
			if (j+k)%3 == 0 {
				// parse once more without Reset (header, then body, from one buffer)
				again := (j + k + 1) % len(cs.G.Rules)
				st.Again = &again
			}
			steps = append(steps, st)
		}
		m := proto.Mode{}
		// several goroutines are set up from the same option values (shared by the runner)
		switch j % 6 {
		case 0, 1, 4:
			m.Size = 65 // Size(64): the parse stays within the initial capacity
		case 2:
			m.NoMemo = true
		case 3, 5:
			m.Pretty = true
		}
		// printing to standard output is something instances do concurrently too; the output
		// (interleaved by nature) goes to /dev/null, the race detector and recover() observe
		m.RawPrint = j%2 == 0 || m.Pretty
		jobs = append(jobs, proto.Job{Pkg: fmt.Sprintf("g%d%s", cs.ID, v), Steps: steps, Mode: m})
	}
	return jobs
}

func evalConc(c *drv.Ctx, cases []*lab.Case, sets [][]proto.Job, procs []int, stats bool) ([]string, error) {
	l, err := lab.Build(c, cases, []lab.Variant{lab.V0, lab.V3, lab.N0}, lab.Options{Race: true})
	if err != nil {
		return nil, err
	}
	defer l.Close()
	if stats {
		c.Stats.Extra["race_build_seconds"] = l.BuildSeconds
	}
	// sequential reference observations from the same binary
	type key struct {
		pkg   string
		entry int
		in    string
		again int
		mode  proto.Mode
	}
	againOf := func(s proto.Step) int {
		if s.Again == nil {
			return -1
		}
		return *s.Again
	}
	seq := map[key]int{}
	var reqs []proto.Req
	for _, jobs := range sets {
		for _, j := range jobs {
			if !l.Runnable(j.Pkg) {
				continue
			}
			for _, s := range j.Steps {
				k := key{j.Pkg, s.Entry, string(s.Input), againOf(s), j.Mode}
				if _, ok := seq[k]; !ok {
					seq[k] = len(reqs)
					// the reference observation: the same step on an instance of its own, run alone
					reqs = append(reqs, proto.Req{Kind: "hist", Pkg: j.Pkg, Steps: []proto.Step{s}, Modes: []proto.Mode{j.Mode}})
				}
			}
		}
	}
	nSeq := len(reqs)
	for i, jobs := range sets {
		ok := true
		for _, j := range jobs {
			if !l.Runnable(j.Pkg) {
				ok = false
			}
		}
		if !ok {
			reqs = append(reqs, proto.Req{Kind: "conc"})
			continue
		}
		reqs = append(reqs, proto.Req{Kind: "conc", Jobs: jobs, Procs: procs[i], Cold: true})
	}
	// one worker at a time for the concurrent requests would waste cores; four workers keep the
	// machine busy while leaving room for each request's own goroutines
	outs := l.Run(reqs, 4, 60*time.Second)
	res := make([]string, len(sets))
	for i, jobs := range sets {
		o := outs[nSeq+i]
		switch {
		case o.Hang:
			c.Inconclusive = "a concurrent request hit the watchdog"
			continue
		case o.Race != "":
			res[i] = "data race reported by the race detector:\n" + o.Race
			continue
		case o.Died != "":
			res[i] = "worker died during concurrent execution: " + firstLine(o.Died)
			continue
		case o.Resp.Err != "":
			continue
		}
		for ji, j := range jobs {
			if ji >= len(o.Resp.Jobs) {
				break
			}
			for si, s := range j.Steps {
				if si >= len(o.Resp.Jobs[ji]) {
					break
				}
				so := outs[seq[key{j.Pkg, s.Entry, string(s.Input), againOf(s), j.Mode}]]
				if len(so.Resp.Obs) == 0 {
					continue
				}
				if stats {
					c.Stats.Eval()
				}
				if d := obsDiff(&o.Resp.Jobs[ji][si], &so.Resp.Obs[0]); d != "" && res[i] == "" {
					res[i] = fmt.Sprintf("goroutine %d step %d (%s entry %d input %q, %s) under GOMAXPROCS=%d with %d concurrent instances differs from the same parse run alone: %s",
						ji, si, j.Pkg, s.Entry, string(s.Input), modeKey(j.Mode), procs[i], len(jobs), d)
				}
			}
		}
	}
	for i := 0; i < nSeq; i++ {
		if outs[i].Race != "" && len(res) > 0 && res[0] == "" {
			res[0] = "data race reported during sequential runs:\n" + outs[i].Race
		}
	}
	return res, nil
}

func runC14(c *drv.Ctx) error {
	n := c.Pick(12, 60)
	rejected := 0
	cases := lab.Collect(drv.ShardSeed(c.Seed, "lab-C14", 0), lab.CollectOpts{N: n, Profiles: []string{"backtracky", "actiony", "erry", "switchy"},
		Inputs: 18, Hostile: true, Rejected: &rejected})
	var sets [][]proto.Job
	var procs []int
	reps := c.Pick(2, 6)
	for i := range cases {
		for r := 0; r < reps; r++ {
			sets = append(sets, c14Jobs(cases, i, 8, 4, false, r))
			procs = append(procs, []int{2, 16}[r%2])
			sets = append(sets, c14Jobs(cases, i, 16, 3, true, r))
			procs = append(procs, []int{16, 2, 4}[r%3])
		}
	}
	res, err := evalConc(c, cases, sets, procs, true)
	if err != nil {
		return err
	}
	for i, jobs := range sets {
		var parts []string
		for _, j := range jobs {
			parts = append(parts, j.Pkg, modeKey(j.Mode))
			for _, s := range j.Steps {
				parts = append(parts, fmt.Sprint(s.Entry), string(s.Input))
			}
		}
		pk := map[string]bool{}
		for _, j := range jobs {
			pk[j.Pkg] = true
		}
		if c.Stats.Nontrivial(drv.Hash(append(parts, fmt.Sprint(procs[i]))...)) {
			c.Stats.Class(fmt.Sprintf("nt_%d_goroutines", len(jobs)))
			if len(pk) > 1 {
				c.Stats.Class("nt_different_parsers_together")
			}
			c.Stats.Class(fmt.Sprintf("nt_gomaxprocs_%d", procs[i]))
			if i < 2 {
				c.Stats.Sample(map[string]any{"goroutines": len(jobs), "gomaxprocs": procs[i], "packages": sortedKeys(pk), "first_job": jobs[0]})
			}
		}
		if res[i] != "" && len(c.Violations) == 0 {
			rp := &concReplay{Jobs: jobs, Procs: procs[i]}
			for _, cs := range cases {
				for name := range pk {
					if strings.HasPrefix(name, fmt.Sprintf("g%dv", cs.ID)) {
						rp.Cases = append(rp.Cases, cs)
						break
					}
				}
			}
			c.AddViolation(drv.Violation{Property: "C14", Kind: "lab-conc", What: res[i], Case: rp})
		}
	}
	return nil
}

func init() {
	drv.RegisterReplay("lab-conc", func(c *drv.Ctx, raw json.RawMessage) (string, error) {
		var r concReplay
		if err := json.Unmarshal(raw, &r); err != nil {
			return "", err
		}
		for _, cs := range r.Cases {
			cs.G.Number()
		}
		// schedules are sampled: repeat the job set a few times
		var sets [][]proto.Job
		var procs []int
		for i := 0; i < 6; i++ {
			sets = append(sets, r.Jobs)
			procs = append(procs, r.Procs)
		}
		res, err := evalConc(c, r.Cases, sets, procs, false)
		if err != nil {
			return "", err
		}
		for _, w := range res {
			if w != "" {
				return w, nil
			}
		}
		return "", nil
	})
	drv.Register("C14",
		"12 (quick) / 60 (thorough) well-formed grammars, default, -inline -switch and -noast parsers built into one binary with the race detector; job sets of 8 goroutines over one parser and of 16 goroutines over two different parsers, each goroutine owning one instance (Init with option values shared between goroutines: Size(64), DisableMemoize, Pretty, none) and running 3-4 Reset/Parse/Execute/Sprint/Error steps (one in three followed by a second Parse of another rule without Reset) behind a common barrier, repeated under GOMAXPROCS 2, 4 and 16; every concurrent job set is the first thing a fresh process does (lazily built package state is cold); every observation (incl. AST().PrettyPrint into a private buffer in Pretty mode) must equal the same parse run alone in the same binary, the race detector must stay silent and the worker must survive. Every job set is non-trivial (>=8 concurrent instances); distinct = (job set, GOMAXPROCS).",
		[]string{
			"schedules are sampled by the Go scheduler, not enumerated; the race detector is happens-before based, so an unsynchronised conflicting pair is flagged whenever both accesses execute",
			"PrintSyntaxTree / PrettyPrintSyntaxTree write to the process-wide standard output: they are called concurrently (output to /dev/null) for the race detector and for panics, their text is compared only in the sequential checks (C05, C12)",
		},
		runC14)
}
