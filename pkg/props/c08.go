package props

import (
	"bytes"
	"encoding/json"
	"fmt"
	"go/ast"
	"go/format"
	"go/importer"
	"go/parser"
	"go/token"
	"go/types"
	"os"
	"os/exec"
	"path/filepath"
	"sort"
	"strconv"
	"strings"
	"sync"
	"time"

	"pgregory.net/rapid"

	"verif/pkg/drv"
	"verif/pkg/gram"
	"verif/pkg/lab"
)

// C08 — every accepted grammar yields valid, gofmt-clean Go under every option set.

type genCase struct {
	G        *gram.Grammar   `json:"g"`
	Spell    []int           `json:"spell,omitempty"`
	Text     string          `json:"text"`
	Features map[string]bool `json:"features,omitempty"`
}

var (
	impOnce sync.Once
	impMu   sync.Mutex
	stdImp  types.Importer
	impFset *token.FileSet
)

// typeCheck parses and type-checks one generated file; it returns the first problems.
func typeCheck(src []byte) (problems []string, file *ast.File) {
	impOnce.Do(func() {
		impFset = token.NewFileSet()
		stdImp = importer.ForCompiler(impFset, "source", nil)
	})
	impMu.Lock()
	defer impMu.Unlock()
	fset := impFset
	f, err := parser.ParseFile(fset, "g.peg.go", src, parser.ParseComments|parser.SkipObjectResolution)
	if err != nil {
		return []string{"go/parser: " + err.Error()}, nil
	}
	conf := types.Config{Importer: stdImp, Error: func(err error) {
		if len(problems) < 5 {
			problems = append(problems, "go/types: "+err.Error())
		}
	}}
	_, _ = conf.Check("g", fset, []*ast.File{f}, nil)
	return problems, f
}

func runtimeImports(noast bool) []string {
	if noast {
		return []string{"fmt", "slices", "strconv"}
	}
	return []string{"bytes", "fmt", "io", "os", "slices", "strconv"}
}

// checkGenerated applies the validity predicate of C08 to one (text, variant).
func checkGenerated(text string, v lab.Variant, imports []gram.Import, warned bool) string {
	var src []byte
	var genErr string
	if warned {
		// the grammar earns warnings (unused or undefined rules): without -strict the parser
		// is written all the same, and has to be as valid as any other
		src, _, genErr = lab.GenerateWarned(text, v, "g.peg.go")
	} else {
		src, genErr = lab.Generate(text, v, "g.peg.go")
	}
	if genErr != "" {
		return fmt.Sprintf("[%s] %s", v.Flags(), genErr)
	}
	probs, f := typeCheck(src)
	if len(probs) > 0 {
		return fmt.Sprintf("[%s] generated file is not valid Go: %s", v.Flags(), strings.Join(probs, "; "))
	}
	formatted, err := format.Source(src)
	if err != nil {
		return fmt.Sprintf("[%s] gofmt cannot parse the output: %v", v.Flags(), err)
	}
	if !bytes.Equal(formatted, src) {
		return fmt.Sprintf("[%s] output is not in canonical gofmt form: %s", v.Flags(), firstDiff(src, formatted))
	}
	// imports: exactly the runtime's needs plus the user's, aliases kept, each once
	want := map[string]int{}
	for _, p := range runtimeImports(v.NoAST) {
		want[p+"="]++
	}
	for _, im := range imports {
		key := im.Path + "=" + im.Alias
		if im.Alias == "" && want[key] > 0 {
			continue // the user repeats a runtime import: still exactly one spec
		}
		want[key]++
	}
	got := map[string]int{}
	for _, s := range f.Imports {
		p, _ := strconv.Unquote(s.Path.Value)
		a := ""
		if s.Name != nil {
			a = s.Name.Name
		}
		got[p+"="+a]++
	}
	if fmt.Sprint(sortedCounts(got)) != fmt.Sprint(sortedCounts(want)) {
		return fmt.Sprintf("[%s] import specs %v, expected %v", v.Flags(), sortedCounts(got), sortedCounts(want))
	}
	return ""
}

func sortedCounts(m map[string]int) []string {
	var out []string
	for k, v := range m {
		out = append(out, fmt.Sprintf("%s x%d", k, v))
	}
	sort.Strings(out)
	return out
}

func firstDiff(a, b []byte) string {
	la, lb := strings.Split(string(a), "\n"), strings.Split(string(b), "\n")
	for i := 0; i < len(la) && i < len(lb); i++ {
		if la[i] != lb[i] {
			return fmt.Sprintf("line %d: emitted %q, gofmt %q", i+1, la[i], lb[i])
		}
	}
	return fmt.Sprintf("emitted %d lines, gofmt %d lines", len(la), len(lb))
}

func c08Features(g *gram.Grammar, feat map[string]bool) []string {
	var risk []string
	for k := range feat {
		if strings.HasPrefix(k, "excluded:") || strings.HasSuffix(k, ":plain") {
			continue
		}
		risk = append(risk, k)
	}
	if g.Count(gram.KCap) > 0 {
		risk = append(risk, "capture(-noast)")
	}
	three := false
	hostileRune := false
	for _, r := range g.Rules {
		r.Body.Walk(func(e *gram.Expr) {
			if e.K == gram.KAlt && len(e.Kids) >= 3 {
				three = true
			}
			for _, x := range e.Runes {
				if x < 0x20 || x >= 0x7f || x == '\'' || x == '"' || x == '\\' {
					hostileRune = true
				}
			}
			for _, it := range e.Items {
				if it.Lo < 0x20 || it.Hi >= 0x7f || it.Lo == '\'' || it.Lo == '"' || it.Lo == '\\' {
					hostileRune = true
				}
			}
		})
	}
	if three {
		risk = append(risk, "3way-choice(-switch)")
	}
	if hostileRune {
		risk = append(risk, "control/non-ascii/quote rune in terminal")
	}
	sort.Strings(risk)
	return risk
}

// degenerateGrammar builds a grammar that consumes nothing at all: only actions, predicates,
// state changes, empty expressions, lookaheads over those and references to later rules.
func degenerateGrammar(t *rapid.T) *gram.Grammar {
	n := rapid.IntRange(1, 3).Draw(t, "dn")
	g := &gram.Grammar{Package: "g", Struct: "G"}
	var elem func(i, depth int) *gram.Expr
	elem = func(i, depth int) *gram.Expr {
		k := rapid.IntRange(0, 8).Draw(t, "dk")
		if depth <= 0 && k >= 5 {
			k = 0
		}
		switch k {
		case 0:
			return &gram.Expr{K: gram.KAct}
		case 1:
			return &gram.Expr{K: gram.KPred, Pred: rapid.IntRange(0, 1).Draw(t, "dpred")}
		case 2:
			return &gram.Expr{K: gram.KState}
		case 3:
			return &gram.Expr{K: gram.KEmpty}
		case 4:
			if i+1 < n {
				return gram.Ref(rapid.IntRange(i+1, n-1).Draw(t, "dref"))
			}
			return &gram.Expr{K: gram.KAct}
		case 5:
			return gram.Un(gram.KCap, elem(i, depth-1))
		case 6:
			return gram.Un(rapid.SampledFrom([]gram.Kind{gram.KAnd, gram.KNot, gram.KOpt}).Draw(t, "dun"), elem(i, depth-1))
		case 7:
			return gram.Seq(elem(i, depth-1), elem(i, depth-1))
		default:
			e := gram.Alt(elem(i, depth-1), elem(i, depth-1))
			e.EmptyLast = rapid.Bool().Draw(t, "dempty")
			return e
		}
	}
	for i := 0; i < n; i++ {
		g.Rules = append(g.Rules, &gram.Rule{Name: fmt.Sprintf("R%d", i), Body: elem(i, 2)})
	}
	// every rule reachable
	reach := g.Reachable()
	for j := 1; j < n; j++ {
		if !reach[j] {
			g.Rules[0].Body = gram.Seq(g.Rules[0].Body, gram.Ref(j))
		}
	}
	g.Number()
	return g
}

func c08Gen(t *rapid.T, openShapes map[string]drv.Finding, maxExtra int) genCase {
	prof := rapid.SampledFrom([]string{"plain", "switchy", "liney", "deep", "backtracky", "switchy"}).Draw(t, "profile")
	p := gram.Profiles[prof]
	p.MaxRune = true
	p.Hostile += 10
	p.WPred += 3
	p.WState += 2
	var g *gram.Grammar
	degenerate := rapid.IntRange(0, 19).Draw(t, "degenerate") == 0
	for tries := 0; ; tries++ {
		if degenerate {
			g = degenerateGrammar(t)
		} else {
			g = gram.WellFormedGrammar(t, p)
		}
		if g.WellFormed() || tries > 20 {
			break
		}
	}
	_, g4open := openShapes["pred-line-comment"]
	warned := !degenerate && rapid.IntRange(0, 5).Draw(t, "warned?") == 0
	var warnKinds []string
	if warned {
		warnKinds = gram.AddWarned(t, g)
	}
	feat := gram.Decorate(t, g, gram.DecorateOpts{NoLineCommentInPredicate: g4open, MaxExtraRules: maxExtra})
	g.Package, g.Struct = "g", "G"
	if degenerate {
		feat["grammar-without-terminals"] = true
	}
	if warned {
		feat["warned-grammar"] = true
		for _, k := range warnKinds {
			feat["warned:"+k] = true
		}
	}
	cs := genCase{G: g, Features: feat}
	if rapid.IntRange(0, 2).Draw(t, "spell?") == 0 {
		cs.Spell = rapid.SliceOfN(rapid.IntRange(0, 1<<12), 16, 16).Draw(t, "spell")
	}
	pr := gram.Printer{G: g, S: &gram.Spell{V: cs.Spell}}
	cs.Text = pr.Text()
	return cs
}

func c08Shard(c *drv.Ctx, shard, checks int) (*drv.Stats, *drv.Violation, error) {
	st := drv.NewStats()
	fnd, _ := drv.LoadFindings(c.Verif)
	open := fnd.OpenShapes("C08")
	var last *genCase
	var lastWhat string
	maxExtra := c.Pick(300, 1200)
	guard := &drv.ShrinkGuard{Budget: time.Duration(c.Pick(40, 120)) * time.Second}
	prop := func(t *rapid.T) {
		cs := c08Gen(t, open, maxExtra)
		key := drv.Hash(cs.Text)
		what, known := guard.Known(key)
		if !known && guard.Expired() {
			t.Skip("shrink budget exhausted")
		}
		risk := c08Features(cs.G, cs.Features)
		for k := range cs.Features {
			if strings.HasPrefix(k, "excluded:") {
				st.Class("excluded_by_known_finding:" + strings.TrimPrefix(k, "excluded:"))
			}
		}
		if !known {
			for _, v := range lab.AllVariants {
				st.Eval()
				if what = checkGenerated(cs.Text, v, cs.G.Imports, cs.Features["warned-grammar"]); what != "" {
					if strings.Contains(what, "did not terminate") {
						// a time budget is never a violation: counted, reported as inconclusive
						st.Class("generation_did_not_terminate")
						if _, ok := st.Extra["generation_hung_on"]; !ok {
							st.Extra["generation_hung_on"] = map[string]any{"options": v.Flags(), "text": strings.Split(cs.Text, "\n")}
						}
						what = ""
						break
					}
					guard.Record(key, what)
					break
				}
			}
		}
		if what != "" {
			// one failure site, so that rapid recognises the same failure while shrinking
			cp := cs
			last, lastWhat = &cp, what
			t.Fatalf("%s", what)
		}
		if len(risk) > 0 && st.Nontrivial(drv.Hash(cs.Text)) {
			for _, r := range risk {
				st.Class("risk:" + r)
			}
			if len(cs.G.Rules) <= 4 && len(cs.Text) < 500 {
				st.Sample(map[string]any{"grammar_text": strings.Split(cs.Text, "\n"), "risk_features": risk})
			}
		}
	}
	res := drv.RunRapid("C08", checks, drv.ShardSeed(c.Seed, "c08", shard), time.Duration(c.Pick(40, 120))*time.Second, prop)
	if res.Failed {
		if last == nil {
			return st, nil, fmt.Errorf("rapid failed without a recorded case: %s", res.Log)
		}
		return st, &drv.Violation{Property: "C08", Kind: "gen-text", What: lastWhat + "\n--- grammar ---\n" + last.Text, Case: last}, nil
	}
	st.ClassN("rapid_checks_passed", int64(res.Passed))
	return st, nil, nil
}

// c08GroundTruth sends generated files through the real toolchain (go build, gofmt -l).
func c08GroundTruth(c *drv.Ctx, n int) error {
	fnd, _ := drv.LoadFindings(c.Verif)
	open := fnd.OpenShapes("C08")
	var cases []genCase
	res := drv.RunRapid("C08-ground", n, drv.ShardSeed(c.Seed, "c08-ground", 0), time.Second, func(t *rapid.T) {
		cases = append(cases, c08Gen(t, open, 300))
	})
	if res.Failed {
		return fmt.Errorf("collecting ground-truth cases failed: %s", res.Log)
	}
	dir := filepath.Join(c.Scratch, "c08ground")
	if err := os.MkdirAll(dir, 0o755); err != nil {
		return err
	}
	defer os.RemoveAll(dir)
	_ = os.WriteFile(filepath.Join(dir, "go.mod"), []byte("module ground\n\ngo 1.25\n"), 0o644)
	// The file a user compiles is the one the command wrote, usually over the output of an
	// earlier run: regenerate with other options over the (longer) earlier parser and parse it.
	if bin, err := BuildPeg(c, false); err == nil {
		cdir := filepath.Join(c.Scratch, "c08cli")
		_ = os.MkdirAll(cdir, 0o755)
		defer os.RemoveAll(cdir)
		for i := range cases {
			if i >= 6 || cases[i].Features["warned-grammar"] {
				continue
			}
			_ = os.WriteFile(filepath.Join(cdir, "g.peg"), []byte(cases[i].Text), 0o644)
			_ = os.Remove(filepath.Join(cdir, "g.peg.go"))
			// longest first: without options, then -inline -switch, then -noast
			for _, v := range []lab.Variant{lab.V0, lab.V3, lab.N0, lab.V0} {
				args := append(v.Args()[1:], "g.peg")
				exit, _, stderr := runPeg(bin, cdir, "", nil, args...)
				c.Stats.Eval()
				c.Stats.Class("cli_regeneration_then_parse")
				if exit != 0 {
					break // refused grammars are C15's and C18's business
				}
				b, _ := os.ReadFile(filepath.Join(cdir, "g.peg.go"))
				if _, perr := parser.ParseFile(token.NewFileSet(), "g.peg.go", b, parser.SkipObjectResolution); perr != nil {
					cs := cases[i]
					c.AddViolation(drv.Violation{Property: "C08", Kind: "gen-text", What: fmt.Sprintf("peg %s g.peg, run over the g.peg.go an earlier run had left, leaves a file that does not parse: %v (stderr %q)\n--- grammar ---\n%s", v.Flags(), perr, firstLine(stderr), cs.Text), Case: &cs})
					return nil
				}
			}
		}
	}
	type pk struct {
		cs   *genCase
		v    lab.Variant
		name string
	}
	var pkgs []pk
	for i := range cases {
		for _, v := range lab.AllVariants {
			name := fmt.Sprintf("p%d%s", i, v.Name)
			var src []byte
			var genErr string
			if cases[i].Features["warned-grammar"] {
				src, _, genErr = lab.GenerateWarned(cases[i].Text, v, "g.peg.go")
			} else {
				src, genErr = lab.Generate(cases[i].Text, v, "g.peg.go")
			}
			if genErr != "" {
				cs := cases[i]
				c.AddViolation(drv.Violation{Property: "C08", Kind: "gen-text", What: fmt.Sprintf("[%s] %s\n--- grammar ---\n%s", v.Flags(), genErr, cs.Text), Case: &cs})
				return nil
			}
			pd := filepath.Join(dir, name)
			_ = os.MkdirAll(pd, 0o755)
			_ = os.WriteFile(filepath.Join(pd, "g.peg.go"), src, 0o644)
			pkgs = append(pkgs, pk{&cases[i], v, name})
		}
	}
	env := append(os.Environ(), "GOFLAGS=-mod=mod", "GOPROXY=off", "GOSUMDB=off", "GOTOOLCHAIN=local", "GOCACHE="+filepath.Join(dir, ".gocache"), "GOWORK=off")
	run := func(args ...string) string {
		cmd := exec.Command(c.Go, args...)
		cmd.Dir = dir
		cmd.Env = env
		out, _ := cmd.CombinedOutput()
		return string(out)
	}
	report := func(tool, out string) bool {
		for _, p := range pkgs {
			if strings.Contains(out, "ground/"+p.name) || strings.Contains(out, p.name+"/g.peg.go") {
				i := strings.Index(out, p.name)
				msg := out[i:]
				if len(msg) > 600 {
					msg = msg[:600]
				}
				c.AddViolation(drv.Violation{Property: "C08", Kind: "gen-text", What: fmt.Sprintf("[%s] %s rejects the generated file: %s\n--- grammar ---\n%s", p.v.Flags(), tool, msg, p.cs.Text), Case: p.cs})
				return true
			}
		}
		return false
	}
	out := run("build", "./...")
	c.Stats.ClassN("ground_truth_packages_go_build", int64(len(pkgs)))
	if strings.TrimSpace(out) != "" && !report("go build", out) {
		return fmt.Errorf("go build of the ground-truth batch: %s", out)
	}
	if len(c.Violations) > 0 {
		return nil
	}
	gofmt := filepath.Join(filepath.Dir(c.Go), "gofmt")
	cmd := exec.Command(gofmt, "-l", ".")
	cmd.Dir = dir
	o2, _ := cmd.CombinedOutput()
	c.Stats.ClassN("ground_truth_packages_gofmt", int64(len(pkgs)))
	if strings.TrimSpace(string(o2)) != "" {
		report("gofmt -l", string(o2))
	}
	_ = exec.Command("chmod", "-R", "u+w", dir).Run()
	return nil
}

func init() {
	drv.RegisterShard("c08", c08Shard)
	drv.RegisterReplay("gen-text", func(c *drv.Ctx, raw json.RawMessage) (string, error) {
		var cs genCase
		if err := json.Unmarshal(raw, &cs); err != nil {
			return "", err
		}
		for _, v := range lab.AllVariants {
			if what := checkGenerated(cs.Text, v, cs.G.Imports, cs.Features["warned-grammar"]); what != "" {
				return what, nil
			}
		}
		return "", nil
	})
	drv.Register("C08",
		"rapid-generated grammar texts: well-formed ASTs of all profiles (U+10FFFF, control, quote, backslash and non-ASCII runes in literals and classes) decorated with explicit action/predicate/state-change code (block and line comments, nested braces, comment markers inside strings, raw strings), user imports used in struct fields (aliased, sub-packages, duplicating runtime imports, grouped), header comments, and up to 300 (quick) / 1200 (thorough) extra rules with rule-constant totals 253-258 hit deliberately (thorough: also 65534-65537, the uint16/uint32 boundary); rendered with drawn spelling variants. For each of the eight option sets: the front end accepts, Compile returns nil, go/parser and go/types (source importer) report nothing, format.Source(out)==out, and the import specs are exactly runtime needs + user imports. A sample additionally goes through the real go build and gofmt -l (go vet is not part of the statement: it reports unreachable code in correct parsers). Non-trivial: the grammar has at least one risk feature (listed in classes); distinct = distinct grammar text.",
		[]string{
			"rule names do not collide with reserved identifiers and action code is valid Go (the statement's precondition); action snippets do not mention text/begin/end",
			"go/types with the source importer agrees with the compiler (cross-checked on the ground-truth sample)",
		},
		func(c *drv.Ctx) error {
			err := drv.RunSharded(c, "c08", c.Pick(128, 4000), c.Pick(8, 16), 30*time.Minute)
			if n := c.Stats.Classes["generation_did_not_terminate"]; n > 0 && len(c.Violations) == 0 {
				c.Inconclusive = fmt.Sprintf("%d generations did not terminate within %v (see generation_hung_on in the evidence); a hang is reported as inconclusive by policy", n, lab.GenerateTimeout)
			}
			if err != nil || len(c.Violations) > 0 {
				return err
			}
			if err := c08GroundTruth(c, c.Pick(12, 120)); err != nil || len(c.Violations) > 0 || !c.Thorough() {
				return err
			}
			return drv.RunSharded(c, "c08big", 4, 4, 30*time.Minute)
		})
}

func init() {
	// ./check --tool bigrules <n>: time the validity check of a chain grammar with n rules
	drv.RegisterTool("bigrules", func(c *drv.Ctx, args []string) int {
		n := 1000
		if len(args) > 0 {
			fmt.Sscan(args[0], &n)
		}
		g := &gram.Grammar{Package: "g", Struct: "G", Fields: "\n N int\n", Rules: []*gram.Rule{{Name: "R0", Body: gram.Lit("a")}}}
		gram.AddChain(g, n-1)
		pr := gram.Printer{G: g}
		text := pr.Text()
		for _, v := range []lab.Variant{lab.V0, lab.N0} {
			t0 := time.Now()
			what := checkGenerated(text, v, nil, false)
			fmt.Printf("%d rules, %q: %v %s\n", n, v.Flags(), time.Since(t0), firstLine(what))
		}
		return 0
	})
}

// c08BigShard checks one grammar whose rule constants total exactly a boundary of the
// rule-number type (uint16 -> uint32 at 65536). Thorough tier only: ~30 s per option set.
func c08BigShard(c *drv.Ctx, shard, checks int) (*drv.Stats, *drv.Violation, error) {
	st := drv.NewStats()
	total := []int{65534, 65535, 65536, 65537}[shard%4]
	g := &gram.Grammar{Package: "g", Struct: "G", Fields: "\n N int\n", Rules: []*gram.Rule{{Name: "R0", Body: gram.Seq(gram.Lit("a"), gram.Act())}}}
	g.Rules[0].Body.Kids[1].Code = " p.N++ "
	gram.AddChain(g, total-2) // R0 + one action + chain
	g.Number()
	pr := gram.Printer{G: g}
	text := pr.Text()
	for _, v := range []lab.Variant{lab.V0, lab.N0, lab.V1} {
		st.Eval()
		if what := checkGenerated(text, v, nil, false); what != "" {
			cs := genCase{G: &gram.Grammar{Package: "g", Struct: "G"}, Text: text, Features: map[string]bool{fmt.Sprintf("rule-constants:exactly-%d", total): true}}
			return st, &drv.Violation{Property: "C08", Kind: "gen-text", What: fmt.Sprintf("grammar with exactly %d rule constants: %s", total, what), Case: &cs}, nil
		}
		st.Nontrivial(drv.Hash("big", fmt.Sprint(total), v.Name))
		st.Class(fmt.Sprintf("risk:rule-constants:exactly-%d", total))
	}
	return st, nil, nil
}

func init() { drv.RegisterShard("c08big", c08BigShard) }
