package props

import (
	"bytes"
	"crypto/sha256"
	"encoding/json"
	"fmt"
	"os"
	"os/exec"
	"path/filepath"
	"sort"
	"strconv"
	"strings"
	"sync"
	"time"

	"pgregory.net/rapid"

	"verif/pkg/drv"
	"verif/pkg/fe"
	"verif/pkg/gram"
	"verif/pkg/lab"
)

// C09 — code generation is deterministic and free of data races.
//
// The harness does not own the Go scheduler. It runs the generator under the race detector
// (in process, through a race-enabled build of this driver, and as the peg command built with
// -race), repeats every generation sequentially and concurrently, and compares bytes and
// warnings within a process and across processes started with different GOMAXPROCS.

type detCase struct {
	Text    string `json:"text"`
	Variant string `json:"variant"`
	Kind    string `json:"kind"`
	Rules   int    `json:"rules"`
	Diags   int    `json:"diags"`
}

func variantByName(n string) lab.Variant {
	for _, v := range lab.AllVariants {
		if v.Name == n {
			return v
		}
	}
	return lab.V0
}

// genOnce generates with warnings allowed; it returns the output bytes and the warning text.
func genOnce(text string, v lab.Variant) (out []byte, warn string) {
	defer func() {
		if r := recover(); r != nil {
			out, warn = nil, fmt.Sprint("PANIC ", r)
		}
	}()
	res := fe.Parse(text, v.Inline, v.Switch, v.NoAST)
	if res.Panic != "" || res.Err != nil {
		return nil, "REJECT"
	}
	var buf bytes.Buffer
	err := res.Tree.Compile("g.peg.go", v.Args(), &buf) // not strict: warnings go to os.Stderr (redirected)
	if err != nil {
		return buf.Bytes(), "ERR " + err.Error()
	}
	// the warning text itself: a strict run returns it as the error
	res2 := fe.Parse(text, v.Inline, v.Switch, v.NoAST)
	res2.Tree.Strict = true
	var b2 bytes.Buffer
	if err := res2.Tree.Compile("g.peg.go", v.Args(), &b2); err != nil {
		warn = err.Error()
	}
	return buf.Bytes(), warn
}

func digest(out []byte, warn string) string {
	h := sha256.New()
	h.Write(out)
	h.Write([]byte{0})
	h.Write([]byte(warn))
	return fmt.Sprintf("%x", h.Sum(nil))[:24]
}

func c09Cases(c *drv.Ctx, n int) []detCase {
	fnd, _ := drv.LoadFindings(c.Verif)
	var cases []detCase
	res := drv.RunRapid("C09-cases", n, drv.ShardSeed(c.Seed, "c09-cases", 0), time.Second, func(t *rapid.T) {
		v := rapid.SampledFrom([]string{"v0", "v1", "v2", "v3", "n0", "n3", "v0", "v1"}).Draw(t, "variant")
		kind := rapid.IntRange(0, 3).Draw(t, "kind")
		if kind == 3 {
			// several diagnostics of the same kind (undefined names, unused rules): whatever
			// collects them must not report them in the order of a map
			p := gram.Profiles["plain"]
			p.MaxRules, p.Depth = 5, 2
			g := gram.WellFormedGrammar(t, p)
			n := 0
			for k := rapid.IntRange(2, 4).Draw(t, "warnrounds"); k > 0; k-- {
				n += len(gram.AddWarned(t, g))
			}
			// names are numbered per round: make them distinct across rounds
			seen := map[string]int{}
			for _, r := range g.Rules {
				seen[r.Name]++
				if seen[r.Name] > 1 {
					return
				}
			}
			g.Package, g.Struct = "g", "G"
			gram.Decorate(t, g, gram.DecorateOpts{NoLineCommentInPredicate: true})
			pr := gram.Printer{G: g, S: &gram.Spell{}}
			cases = append(cases, detCase{Text: pr.Text(), Variant: v, Kind: "many-warnings", Rules: len(g.Rules), Diags: n})
			return
		}
		if kind == 0 {
			cs := c08Gen(t, fnd.OpenShapes("C08"), 0)
			if rapid.Bool().Draw(t, "chain") {
				gram.AddChain(cs.G, rapid.IntRange(20, 60).Draw(t, "chainlen"))
				cs.G.Number()
				pr := gram.Printer{G: cs.G, S: &gram.Spell{V: cs.Spell}}
				cs.Text = pr.Text()
			}
			cases = append(cases, detCase{Text: cs.Text, Variant: v, Kind: "codegen", Rules: len(cs.G.Rules)})
			return
		}
		cs := c15Gen(t, fnd.OpenShapes("C15"))
		if len(cs.G.Duplicates()) > 0 {
			return
		}
		exact, lmin, _ := expectedDiagnostics(cs.G)
		kinds := map[string]bool{}
		for k := range exact {
			kinds[strings.SplitN(k, ":", 2)[0]] = true
		}
		if len(lmin) > 0 {
			kinds["leftrec"] = true
		}
		cases = append(cases, detCase{Text: cs.Text, Variant: v, Kind: "diagnostics", Rules: len(cs.G.Rules), Diags: len(kinds)})
	})
	if res.Failed {
		drv.Inconclusive("collecting cases failed: %s", res.Log)
	}
	return cases
}

// c09Sink is a clean grammar with every kind of terminal, for the cold start.
const c09Sink = `package k

type K Peg {
	n int
}

Start   <- Item+ !.
Item    <- Escape / Quoted / Space / Num / Word / .
Escape  <- '\\' [nrt\\]
Quoted  <- '"' (!'"' .)* '"'
Space   <- [ \t]+ / '\n'
Num     <- <[0-9]+> { p.n++ } / "0x" [[a-f]]+
Word    <- [^ \t\n0-9"\\#]+ / &{ p.n > 0 } '#' [^\n]*
`

// c09Child runs inside the race-enabled driver: sequential repeats, concurrent generations of
// the same text, concurrent generations of different texts. It reports digests.
func c09Child(c *drv.Ctx, shard, checks int) (st *drv.Stats, viol *drv.Violation, err error) {
	st = drv.NewStats()
	if null, err := os.OpenFile(os.DevNull, os.O_WRONLY, 0); err == nil {
		os.Stderr = null // warnings of non-strict generations; race reports go to fd 2 directly
	}
	cases := c09Cases(c, checks)
	digests := make([]string, len(cases))
	fail := func(i int, what string) (*drv.Stats, *drv.Violation, error) {
		cs := cases[i]
		return st, &drv.Violation{Property: "C09", Kind: "det-text", What: fmt.Sprintf("[%s] %s\n--- grammar text ---\n%s", variantByName(cs.Variant).Flags(), what, cs.Text), Case: cs}, nil
	}
	// 0. cold start: the very first generations of this process run concurrently, so that
	// whatever the generator builds lazily on first use (tables, parsed templates) is built
	// while several generations are under way
	nCold := 4
	if len(cases) < nCold {
		nCold = len(cases)
	}
	cold := make([]string, nCold)
	{
		var wg sync.WaitGroup
		start := make(chan struct{})
		// next to them, two generations of one text that uses every kind of terminal (a bare
		// dot alternative, classes, ranges, negated and case-insensitive ones) under -switch:
		// whatever is derived from the alphabet or the operators and kept for later use is
		// first asked for by both at once
		sink := make([][]byte, 2)
		sinkW := make([]string, 2)
		for k := range sink {
			wg.Add(1)
			go func(k int) {
				defer wg.Done()
				<-start
				sink[k], sinkW[k] = genOnce(c09Sink, variantByName([]string{"v3", "v2"}[k]))
			}(k)
		}
		defer func() {
			for k, name := range []string{"v3", "v2"} {
				o, w := genOnce(c09Sink, variantByName(name))
				st.Eval()
				st.Class("cold_start_concurrent_generations")
				if viol == nil && (!bytes.Equal(o, sink[k]) || w != sinkW[k] || len(o) == 0) {
					viol = &drv.Violation{Property: "C09", Kind: "det-text", What: fmt.Sprintf("[%s] one of the first generations of the process, run concurrently with the other first ones, differs from a later sequential one (or is empty): %s\n--- grammar text ---\n%s", variantByName(name).Flags(), firstDiff(o, sink[k]), c09Sink), Case: detCase{Text: c09Sink, Variant: name, Kind: "codegen"}}
				}
			}
		}()
		for k := 0; k < nCold; k++ {
			wg.Add(1)
			go func(k int) {
				defer wg.Done()
				<-start
				o, w := genOnce(cases[k].Text, variantByName(cases[k].Variant))
				cold[k] = digest(o, w)
			}(k)
		}
		close(start)
		wg.Wait()
	}
	// 1. sequential repeats
	for i, cs := range cases {
		v := variantByName(cs.Variant)
		o1, w1 := genOnce(cs.Text, v)
		o2, w2 := genOnce(cs.Text, v)
		st.Eval()
		if !bytes.Equal(o1, o2) || w1 != w2 {
			return fail(i, "two sequential generations of the same text differ: "+firstDiff(o1, o2)+" / warnings "+strconv.Quote(w1)+" vs "+strconv.Quote(w2))
		}
		digests[i] = digest(o1, w1)
	}
	for k := range cold {
		st.Eval()
		st.Class("cold_start_concurrent_generations")
		if cold[k] != digests[k] {
			return fail(k, "one of the first generations of the process, run concurrently with the other first ones, differs from the sequential result")
		}
	}
	// 2. concurrent generations of the same text on independent trees
	for i, cs := range cases {
		if i%3 != 0 {
			continue
		}
		v := variantByName(cs.Variant)
		var wg sync.WaitGroup
		got := make([]string, 4)
		for k := range got {
			wg.Add(1)
			go func(k int) {
				defer wg.Done()
				o, w := genOnce(cs.Text, v)
				got[k] = digest(o, w)
			}(k)
		}
		wg.Wait()
		st.Eval()
		for k := range got {
			if got[k] != digests[i] {
				return fail(i, fmt.Sprintf("generation %d of 4 concurrent generations of the same text differs from the sequential result", k))
			}
		}
		if (cs.Diags >= 2 || cs.Rules >= 20) && st.Nontrivial(drv.Hash("same", cs.Text, cs.Variant)) {
			st.Class("nt_concurrent_same_text")
		}
	}
	// 3. concurrent generations of different texts
	var wg sync.WaitGroup
	got := make([]string, len(cases))
	sem := make(chan struct{}, 8)
	for i, cs := range cases {
		wg.Add(1)
		go func(i int, cs detCase) {
			defer wg.Done()
			sem <- struct{}{}
			defer func() { <-sem }()
			o, w := genOnce(cs.Text, variantByName(cs.Variant))
			got[i] = digest(o, w)
		}(i, cs)
	}
	wg.Wait()
	for i, cs := range cases {
		st.Eval()
		if got[i] != digests[i] {
			return fail(i, "a generation running concurrently with generations of other grammars differs from the sequential result")
		}
		if (cs.Diags >= 2 || cs.Rules >= 20) && st.Nontrivial(drv.Hash("mixed", cs.Text, cs.Variant)) {
			st.Class("nt_concurrent_different_texts")
			if cs.Diags >= 2 {
				st.Class("nt_two_kinds_of_diagnostics")
			}
			if cs.Rules >= 20 {
				st.Class("nt_20plus_rules")
			}
			if len(cs.Text) < 300 {
				st.Sample(map[string]any{"text": strings.Split(cs.Text, "\n"), "options": variantByName(cs.Variant).Flags(), "diagnostic_kinds": cs.Diags})
			}
		}
	}
	st.Extra["digests"] = digests
	return st, nil, nil
}

type c09ChildOut struct {
	Stats     *drv.Stats     `json:"stats"`
	Violation *drv.Violation `json:"violation,omitempty"`
	Err       string         `json:"err,omitempty"`
}

func c09Run(c *drv.Ctx) error {
	raceBin := os.Getenv("VERIF_RACE_BIN")
	if raceBin == "" {
		drv.Inconclusive("the race-enabled driver was not built (run through ./check)")
	}
	n := c.Pick(60, 600)
	procs := []int{1, 2, 4, 16}
	type res struct {
		out      c09ChildOut
		stderr   string
		exit     int
		err      error
		maxprocs int
	}
	results := make([]res, len(procs))
	var wg sync.WaitGroup
	for i, p := range procs {
		wg.Add(1)
		go func(i, p int) {
			defer wg.Done()
			cmd := exec.Command(raceBin, "shard", "c09", "C09", c.Tier, "0", strconv.Itoa(n))
			cmd.Env = append(os.Environ(), fmt.Sprintf("GOMAXPROCS=%d", p), "GORACE=halt_on_error=1 exitcode=66", fmt.Sprintf("VERIF_SEED=%d", c.Seed), "VERIF_SCRATCH="+c.Scratch)
			var so, se bytes.Buffer
			cmd.Stdout, cmd.Stderr = &so, &se
			err := cmd.Run()
			r := res{stderr: se.String(), maxprocs: p}
			if err != nil {
				if ee, ok := err.(*exec.ExitError); ok {
					r.exit = ee.ExitCode()
				} else {
					r.err = err
				}
			}
			line := bytes.TrimSpace(so.Bytes())
			if j := bytes.LastIndexByte(line, '\n'); j >= 0 {
				line = line[j+1:]
			}
			_ = json.Unmarshal(line, &r.out)
			results[i] = r
		}(i, p)
	}
	wg.Wait()
	var ref []any
	for _, r := range results {
		if r.err != nil {
			return r.err
		}
		if r.exit == 66 || strings.Contains(r.stderr, "DATA RACE") {
			c.AddViolation(drv.Violation{Property: "C09", Kind: "det-race", What: fmt.Sprintf("the race detector reports a data race in the generator (GOMAXPROCS=%d):\n%s", r.maxprocs, tail(r.stderr, 3000)), Case: map[string]any{"gomaxprocs": r.maxprocs}})
			return nil
		}
		if r.exit != 0 {
			return fmt.Errorf("race-enabled child (GOMAXPROCS=%d) exits %d: %s", r.maxprocs, r.exit, tail(r.stderr, 800))
		}
		if r.out.Violation != nil {
			c.AddViolation(*r.out.Violation)
			return nil
		}
		if r.out.Stats == nil {
			return fmt.Errorf("race-enabled child (GOMAXPROCS=%d) returned nothing: %s", r.maxprocs, tail(r.stderr, 400))
		}
		for _, k := range r.out.Stats.NTList {
			c.Stats.NT[k] = true
		}
		r.out.Stats.NTList = nil
		d, _ := r.out.Stats.Extra["digests"].([]any)
		delete(r.out.Stats.Extra, "digests")
		c.Stats.Merge(r.out.Stats)
		if ref == nil {
			ref = d
		} else {
			if len(d) != len(ref) {
				return fmt.Errorf("children generated different numbers of cases (%d vs %d)", len(d), len(ref))
			}
			for i := range d {
				c.Stats.Eval()
				if d[i] != ref[i] {
					cases := c09Cases(c, n)
					cs := cases[i]
					c.AddViolation(drv.Violation{Property: "C09", Kind: "det-text", What: fmt.Sprintf("[%s] output or warnings differ between a process with GOMAXPROCS=%d and one with GOMAXPROCS=%d\n--- grammar text ---\n%s", variantByName(cs.Variant).Flags(), procs[0], r.maxprocs, cs.Text), Case: cs})
					return nil
				}
			}
		}
	}
	c.Stats.Extra["gomaxprocs_values"] = procs
	return c09CLI(c)
}

// c09CLI runs the peg command built with -race repeatedly under different GOMAXPROCS.
func c09CLI(c *drv.Ctx) error {
	bin, err := BuildPeg(c, true)
	if err != nil {
		return err
	}
	cases := c09Cases(c, c.Pick(16, 120))
	dir := filepath.Join(c.Scratch, "c09cli")
	_ = os.MkdirAll(dir, 0o755)
	defer os.RemoveAll(dir)
	type job struct{ i, p, rep int }
	var jobs []job
	for i := range cases {
		_ = os.WriteFile(filepath.Join(dir, fmt.Sprintf("g%d.peg", i)), []byte(cases[i].Text), 0o644)
		for _, p := range []int{1, 2, 16} {
			for rep := 0; rep < 2; rep++ {
				jobs = append(jobs, job{i, p, rep})
			}
		}
	}
	type obs struct {
		exit        int
		out, stderr string
	}
	results := make([]obs, len(jobs))
	sem := make(chan struct{}, 8)
	var wg sync.WaitGroup
	for k, j := range jobs {
		wg.Add(1)
		go func(k int, j job) {
			defer wg.Done()
			sem <- struct{}{}
			defer func() { <-sem }()
			v := variantByName(cases[j.i].Variant)
			args := append(v.Args()[1:], "-output", "-", fmt.Sprintf("g%d.peg", j.i))
			e, so, se := runPeg(bin, dir, "", []string{fmt.Sprintf("GOMAXPROCS=%d", j.p), "GORACE=halt_on_error=1 exitcode=66"}, args...)
			results[k] = obs{e, so, se}
		}(k, j)
	}
	wg.Wait()
	first := map[int]int{}
	for k, j := range jobs {
		c.Stats.Eval()
		r := results[k]
		cs := cases[j.i]
		if r.exit == 66 || strings.Contains(r.stderr, "DATA RACE") {
			c.AddViolation(drv.Violation{Property: "C09", Kind: "det-text", What: fmt.Sprintf("peg %s built with -race reports a data race (GOMAXPROCS=%d):\n%s\n--- grammar text ---\n%s", variantByName(cs.Variant).Flags(), j.p, tail(r.stderr, 2500), cs.Text), Case: cs})
			return nil
		}
		f, ok := first[j.i]
		if !ok {
			first[j.i] = k
			if c.Stats.Nontrivial(drv.Hash("cli", cs.Text, cs.Variant)) {
				c.Stats.Class("nt_cli_process_level_repeat")
			}
			continue
		}
		if results[f].out != r.out || results[f].stderr != r.stderr || results[f].exit != r.exit {
			c.AddViolation(drv.Violation{Property: "C09", Kind: "det-text", What: fmt.Sprintf("two runs of peg %s on the same file differ (GOMAXPROCS %d vs %d): exit %d/%d, %s, stderr %q vs %q\n--- grammar text ---\n%s",
				variantByName(cs.Variant).Flags(), jobs[f].p, j.p, results[f].exit, r.exit, firstDiff([]byte(results[f].out), []byte(r.out)), results[f].stderr, r.stderr, cs.Text), Case: cs})
			return nil
		}
	}
	// the destination's earlier content is no input either: into a fresh file, over a longer
	// parser left by another grammar, and over its own output, the same bytes arrive
	longest := ""
	for k := range jobs {
		if results[k].exit == 0 && len(results[k].out) > len(longest) {
			longest = results[k].out
		}
	}
	for i := range cases {
		if i >= 8 || longest == "" {
			break
		}
		cs := cases[i]
		v := variantByName(cs.Variant)
		dest := fmt.Sprintf("out%d.go", i)
		args := append(v.Args()[1:], "-output", dest, fmt.Sprintf("g%d.peg", i))
		var outs [3]string
		var exits [3]int
		for step := 0; step < 3; step++ {
			switch step {
			case 0:
				_ = os.Remove(filepath.Join(dir, dest))
			case 1:
				_ = os.WriteFile(filepath.Join(dir, dest), []byte(longest+strings.Repeat("\n// left over from an earlier, longer parser", 200)+"\n"), 0o644)
			}
			exits[step], _, _ = runPeg(bin, dir, "", []string{"GORACE=halt_on_error=1 exitcode=66"}, args...)
			b, _ := os.ReadFile(filepath.Join(dir, dest))
			outs[step] = string(b)
			c.Stats.Eval()
		}
		c.Stats.Class("cli_regeneration_over_existing_destination")
		if exits[0] != 0 {
			continue // a grammar peg refuses: nothing to compare (decided by C15/C18)
		}
		for step := 1; step < 3; step++ {
			if exits[step] != exits[0] || outs[step] != outs[0] {
				c.AddViolation(drv.Violation{Property: "C09", Kind: "det-text", What: fmt.Sprintf("peg %s -output FILE writes different bytes depending on what FILE held before (fresh file vs %s): exit %d/%d, %s\n--- grammar text ---\n%s",
					v.Flags(), []string{"", "a longer earlier parser", "its own earlier output"}[step], exits[0], exits[step], firstDiff([]byte(outs[0]), []byte(outs[step])), cs.Text), Case: cs})
				return nil
			}
		}
	}
	return nil
}

func init() {
	drv.RegisterShard("c09", c09Child)
	drv.RegisterReplay("det-text", func(c *drv.Ctx, raw json.RawMessage) (string, error) {
		var cs detCase
		if err := json.Unmarshal(raw, &cs); err != nil {
			return "", err
		}
		v := variantByName(cs.Variant)
		o1, w1 := genOnce(cs.Text, v)
		for i := 0; i < 20; i++ {
			o2, w2 := genOnce(cs.Text, v)
			if !bytes.Equal(o1, o2) || w1 != w2 {
				return "repeated generation differs: " + firstDiff(o1, o2), nil
			}
		}
		return "", nil
	})
	drv.RegisterReplay("det-race", func(c *drv.Ctx, raw json.RawMessage) (string, error) {
		cc := *c
		cc.Stats = drv.NewStats()
		cc.Violations = nil
		cc.Tier = "quick"
		if os.Getenv("VERIF_RACE_BIN") == "" {
			return "", fmt.Errorf("replay of a race needs the race-enabled driver: run ./check C09")
		}
		if err := c09Run(&cc); err != nil {
			return "", err
		}
		if len(cc.Violations) > 0 {
			return cc.Violations[0].What, nil
		}
		return "", nil
	})
	drv.Register("C09",
		"rapid-generated grammar texts (code-generation test grammars up to 60 extra rules; ill-formed grammars producing undefined / unused / left-recursion diagnostics, so that both analysis goroutines write) x one of six option sets. A race-enabled build of the driver generates every case twice sequentially, four times concurrently on independent trees, and all cases concurrently with each other (8 at a time); bytes and warning text must be identical. The same binary is started with GOMAXPROCS 1, 2, 4 and 16 and the per-case digests must agree across processes; GORACE=halt_on_error makes any race report fatal. The peg command built with -race is then run twice under GOMAXPROCS 1, 2 and 16 on the same files: stdout, stderr and exit status must be identical and race-free. Non-trivial: a grammar with >=2 kinds of diagnostics or >=20 rules generated concurrently; distinct = (text, options, mode of concurrency).",
		[]string{
			"the harness does not own the scheduler: a bug needing one specific interleaving of the two analysis goroutines and invisible to the happens-before race detector would be missed",
		},
		c09Run)
	_ = sort.Strings
}
