package props

import (
	"bytes"
	"fmt"
	"os"
	"os/exec"
	"path/filepath"
	"regexp"
	"strconv"
	"strings"
	"time"

	"verif/pkg/drv"
)

// Engine E3: native coverage-guided fuzzing (`go test -fuzz`), thorough tier only. A
// campaign cannot be pinned to a seed; the saved failing input is the reproducible unit and is
// materialised as an ordinary replay file.

type fuzzResult struct {
	Failed   bool
	Args     []string // decoded arguments of the failing input, in order
	Output   string
	Execs    int64
	Seconds  float64
	Baseline bool
	// SeedIndex: for a baseline failure, the index of the failing f.Add entry (-1: unknown)
	SeedIndex int
}

var (
	fuzzFailRe  = regexp.MustCompile(`Failing input written to (\S+)`)
	fuzzExecsRe = regexp.MustCompile(`execs: (\d+)`)
)

// parseCorpusFile decodes a "go test fuzz v1" corpus file into its raw argument values.
func parseCorpusFile(path string) ([]string, error) {
	b, err := os.ReadFile(path)
	if err != nil {
		return nil, err
	}
	lines := strings.Split(strings.TrimSpace(string(b)), "\n")
	if len(lines) == 0 || !strings.HasPrefix(lines[0], "go test fuzz v1") {
		return nil, fmt.Errorf("not a fuzz corpus file")
	}
	var out []string
	for _, l := range lines[1:] {
		l = strings.TrimSpace(l)
		i, j := strings.IndexByte(l, '('), strings.LastIndexByte(l, ')')
		if i < 0 || j < i {
			continue
		}
		typ, val := l[:i], l[i+1:j]
		switch typ {
		case "string", "[]byte":
			u, err := strconv.Unquote(val)
			if err != nil {
				return nil, err
			}
			out = append(out, u)
		case "byte", "rune":
			// numeric value as a decimal string
			if len(val) >= 2 && val[0] == '\'' {
				u, _, _, err := strconv.UnquoteChar(val[1:len(val)-1], '\'')
				if err == nil {
					out = append(out, strconv.Itoa(int(u)))
					break
				}
			}
			out = append(out, val)
		default:
			out = append(out, val)
		}
	}
	return out, nil
}

// runNativeFuzz runs one fuzz target for the given duration in dir (a package directory of
// the main module there).
func runNativeFuzz(c *drv.Ctx, dir, target string, d time.Duration, extraEnv ...string) (fuzzResult, error) {
	start := time.Now()
	cmd := exec.Command(c.Go, "test", "-run=^$", "-fuzz=^"+target+"$", "-fuzztime="+d.String(), ".")
	cmd.Dir = dir
	cmd.Env = append(goEnvFor(c), extraEnv...)
	var out bytes.Buffer
	cmd.Stdout, cmd.Stderr = &out, &out
	err := cmd.Run()
	res := fuzzResult{Output: out.String(), Seconds: time.Since(start).Seconds()}
	if m := fuzzExecsRe.FindAllStringSubmatch(res.Output, -1); len(m) > 0 {
		res.Execs, _ = strconv.ParseInt(m[len(m)-1][1], 10, 64)
	}
	if err == nil {
		return res, nil
	}
	if m := fuzzFailRe.FindStringSubmatch(res.Output); m != nil {
		p := m[1]
		if !filepath.IsAbs(p) {
			p = filepath.Join(dir, p)
		}
		args, perr := parseCorpusFile(p)
		if perr != nil {
			return res, fmt.Errorf("fuzz failure with unreadable input %s: %v", p, perr)
		}
		res.Failed, res.Args = true, args
		return res, nil
	}
	if strings.Contains(res.Output, "--- FAIL") {
		// a seed corpus entry fails before fuzzing starts: "--- FAIL: FuzzX/seed#N"
		res.Failed, res.Baseline = true, true
		if m := regexp.MustCompile(`/seed#(\d+)`).FindStringSubmatch(res.Output); m != nil {
			res.SeedIndex, _ = strconv.Atoi(m[1])
		} else {
			res.SeedIndex = -1
		}
		return res, nil
	}
	return res, fmt.Errorf("go test -fuzz: %v\n%s", err, tail(res.Output, 1500))
}
