package props

import (
	"encoding/json"
	"fmt"
	"sort"
	"strings"
	"time"

	"github.com/pointlander/peg/set"
	"pgregory.net/rapid"

	"verif/pkg/drv"
)

// C16 — the set package behaves as a mathematical set of code points.
//
// Stateful, model based: a pool of sets is driven by generated operation sequences and
// mirrored in an independent model (an unnormalised list of inserted ranges, membership =
// "some range contains x"); after every step every observer of every pool slot, and every
// pair of slots, is compared with the model.

type setOp struct {
	Op    string `json:"op"` // new add addrange copy union complement
	Dst   int    `json:"dst"`
	A     int    `json:"a,omitempty"`
	B     int    `json:"b,omitempty"`
	Lo    int32  `json:"lo,omitempty"`
	Hi    int32  `json:"hi,omitempty"`
	Limit int32  `json:"limit,omitempty"`
}

func (o setOp) String() string {
	switch o.Op {
	case "has":
		return fmt.Sprintf("s%d.Has(%d)", o.Dst, o.Lo)
	case "len":
		return fmt.Sprintf("s%d.Len()", o.Dst)
	case "string":
		return fmt.Sprintf("s%d.String()", o.Dst)
	case "equal":
		return fmt.Sprintf("s%d.Equal(s%d)", o.Dst, o.A)
	case "intersects":
		return fmt.Sprintf("s%d.Intersects(s%d)", o.Dst, o.A)
	case "new":
		return fmt.Sprintf("s%d=New()", o.Dst)
	case "add":
		return fmt.Sprintf("s%d.Add(%d)", o.Dst, o.Lo)
	case "addrange":
		return fmt.Sprintf("s%d.AddRange(%d,%d)", o.Dst, o.Lo, o.Hi)
	case "copy":
		return fmt.Sprintf("s%d=s%d.Copy()", o.Dst, o.A)
	case "union":
		return fmt.Sprintf("s%d=s%d.Union(s%d)", o.Dst, o.A, o.B)
	case "complement":
		return fmt.Sprintf("s%d=s%d.Complement(%d)", o.Dst, o.A, o.Limit)
	}
	return "?"
}

type setCase struct {
	Wide bool    `json:"wide"`
	Ops  []setOp `json:"ops"`
}

// model: list of inclusive ranges, not normalised.
type setModel [][2]int32

func (m setModel) has(x int32) bool {
	for _, r := range m {
		if r[0] <= x && x <= r[1] {
			return true
		}
	}
	return false
}

func (m setModel) norm() [][2]int32 {
	if len(m) == 0 {
		return nil
	}
	c := make([][2]int32, len(m))
	copy(c, m)
	sort.Slice(c, func(i, j int) bool { return c[i][0] < c[j][0] })
	out := [][2]int32{c[0]}
	for _, r := range c[1:] {
		last := &out[len(out)-1]
		if int64(r[0]) <= int64(last[1])+1 {
			if r[1] > last[1] {
				last[1] = r[1]
			}
		} else {
			out = append(out, r)
		}
	}
	return out
}

func (m setModel) length() int {
	n := 0
	for _, r := range m.norm() {
		n += int(r[1]) - int(r[0]) + 1
	}
	return n
}

func (m setModel) equal(o setModel) bool {
	a, b := m.norm(), o.norm()
	if len(a) != len(b) {
		return false
	}
	for i := range a {
		if a[i] != b[i] {
			return false
		}
	}
	return true
}

func (m setModel) intersects(o setModel) bool {
	for _, a := range m {
		for _, b := range o {
			if a[0] <= b[1] && b[0] <= a[1] {
				return true
			}
		}
	}
	return false
}

func (m setModel) complement(limit int32) setModel {
	var out setModel
	pre := int64(0)
	for _, r := range m.norm() {
		if int64(r[0]) > int64(limit) {
			break
		}
		if int64(r[0]) > pre {
			out = append(out, [2]int32{int32(pre), r[0] - 1})
		}
		pre = int64(r[1]) + 1
	}
	if pre <= int64(limit) {
		out = append(out, [2]int32{int32(pre), limit})
	}
	return out
}

func (m setModel) str() string {
	var sb strings.Builder
	sb.WriteString("[")
	sp := ""
	for _, r := range m.norm() {
		for x := int64(r[0]); x <= int64(r[1]); x++ {
			fmt.Fprintf(&sb, "%s%d", sp, x)
			sp = " "
		}
	}
	sb.WriteString("]")
	return sb.String()
}

func (m setModel) max() int32 {
	mx := int32(-1)
	for _, r := range m {
		if r[1] > mx {
			mx = r[1]
		}
	}
	return mx
}

var widePoints = []int32{0, 1, 2, 0x7f, 0x80, 0xd7ff, 0xd800, 0xdfff, 0xe000, 0xffff, 0x10000, 0x10fffe, 0x10ffff, 0x110000}

// setActions returns the rapid state-machine actions: each draws the arguments of one
// operation (all random choices are rapid draws), applies it to the real sets and to the
// model, and fails on the first disagreement. The "" action is the invariant.
func setActions(st *setState, fail func(t *rapid.T, what string)) map[string]func(*rapid.T) {
	point := func(t *rapid.T, label string) int32 {
		if st.c.Wide {
			p := rapid.SampledFrom(widePoints).Draw(t, label)
			d := int32(rapid.IntRange(-1, 1).Draw(t, label+"d"))
			if p+d >= 0 && p+d <= 0x110000 {
				p += d
			}
			return p
		}
		return int32(rapid.IntRange(0, 16).Draw(t, label))
	}
	slot := func(t *rapid.T, label string) int { return rapid.IntRange(0, 3).Draw(t, label) }
	do := func(t *rapid.T, o setOp) {
		st.c.Ops = append(st.c.Ops, o)
		if w := st.apply(o); w != "" {
			fail(t, w)
		}
	}
	return map[string]func(*rapid.T){
		"add": func(t *rapid.T) { do(t, setOp{Op: "add", Dst: slot(t, "dst"), Lo: point(t, "x")}) },
		"addrange": func(t *rapid.T) {
			a, b := point(t, "lo"), point(t, "hi")
			if a > b {
				a, b = b, a
			}
			do(t, setOp{Op: "addrange", Dst: slot(t, "dst"), Lo: a, Hi: b})
		},
		"addrange2": func(t *rapid.T) { // a second entry doubles the weight of insertions
			a, b := point(t, "lo"), point(t, "hi")
			if a > b {
				a, b = b, a
			}
			do(t, setOp{Op: "addrange", Dst: slot(t, "dst"), Lo: a, Hi: b})
		},
		"copy":  func(t *rapid.T) { do(t, setOp{Op: "copy", Dst: slot(t, "dst"), A: slot(t, "a")}) },
		"union": func(t *rapid.T) { do(t, setOp{Op: "union", Dst: slot(t, "dst"), A: slot(t, "a"), B: slot(t, "b")}) },
		"complement": func(t *rapid.T) {
			// complement within [0,limit]; precondition taken from the only caller:
			// every element is <= limit+1
			a := slot(t, "a")
			mx := st.model[a].max()
			var cands []int32
			if st.c.Wide {
				for _, l := range []int32{0, 1, 0xffff, 0x10fffe, 0x10ffff, 0x110000} {
					if int64(mx) <= int64(l)+1 {
						cands = append(cands, l)
					}
				}
			} else {
				for _, l := range []int32{0, 1, 7, 14, 15, 16} {
					if int64(mx) <= int64(l)+1 {
						cands = append(cands, l)
					}
				}
				if mx >= 0 {
					cands = append(cands, mx)
					if mx > 0 {
						cands = append(cands, mx-1)
					}
				}
			}
			l := rapid.SampledFrom(cands).Draw(t, "limit")
			do(t, setOp{Op: "complement", Dst: slot(t, "dst"), A: a, Limit: l})
		},
		"new": func(t *rapid.T) { do(t, setOp{Op: "new", Dst: slot(t, "dst")}) },
		// observers with drawn arguments between the mutations: an implementation that
		// remembers something about the last query must still answer the next one
		"has":  func(t *rapid.T) { do(t, setOp{Op: "has", Dst: slot(t, "dst"), Lo: point(t, "x")}) },
		"has2": func(t *rapid.T) { do(t, setOp{Op: "has", Dst: slot(t, "dst"), Lo: point(t, "x")}) },
		// query, mutate, query on one set without any other call in between
		"probe-insert-probe": func(t *rapid.T) {
			d := slot(t, "dst")
			do(t, setOp{Op: "has", Dst: d, Lo: point(t, "x1")})
			a, b := point(t, "lo"), point(t, "hi")
			if a > b {
				a, b = b, a
			}
			do(t, setOp{Op: "addrange", Dst: d, Lo: a, Hi: b})
			do(t, setOp{Op: "has", Dst: d, Lo: point(t, "x2")})
			if rapid.Bool().Draw(t, "third") {
				do(t, setOp{Op: "has", Dst: d, Lo: point(t, "x3")})
			}
		},
		"query": func(t *rapid.T) {
			do(t, setOp{Op: rapid.SampledFrom([]string{"len", "string", "equal", "intersects"}).Draw(t, "q"), Dst: slot(t, "dst"), A: slot(t, "a")})
		},
		"": func(t *rapid.T) {
			// The full sweep of observers is itself a sequence of queries and would reset
			// whatever an implementation remembers between calls, so it runs after some
			// steps only; in between, the drawn observer actions are the only queries.
			if rapid.IntRange(0, 2).Draw(t, "sweep?") != 0 {
				return
			}
			if w := st.invariant(); w != "" {
				fail(t, w)
			}
		},
	}
}

// wellFormed walks the exported list links with a step cap, so that a cyclic or broken list
// is a reportable failure of the sequence instead of an endless loop in an observer.
func wellFormed(s *set.Set) string {
	if s.Head.Forward == nil {
		return ""
	}
	n := s.Head.Forward
	for steps := 0; ; steps++ {
		if steps > 100000 {
			return "forward links form a cycle: observers would not terminate"
		}
		if n == nil {
			return "forward chain ends in nil before reaching the tail sentinel"
		}
		if n.Forward == nil {
			break
		}
		n = n.Forward
	}
	b := s.Tail.Backward
	for steps := 0; b != nil; steps++ {
		if steps > 100000 {
			return "backward links form a cycle: AddRange would not terminate"
		}
		b = b.Backward
	}
	return ""
}

type setState struct {
	c     setCase
	pool  []*set.Set
	model []setModel
	cls   map[string]bool
	step  int
	cur   string
}

func newSetState(wide bool) *setState {
	st := &setState{c: setCase{Wide: wide}, pool: make([]*set.Set, 4), model: make([]setModel, 4), cls: map[string]bool{}}
	for i := range st.pool {
		st.pool[i] = set.NewSet()
	}
	return st
}

func (st *setState) mark(k string) { st.cls[k] = true }

func (st *setState) universe() []int32 {
	if !st.c.Wide {
		u := make([]int32, 0, 19)
		for x := int32(0); x <= 18; x++ {
			u = append(u, x)
		}
		return u
	}
	seen := map[int32]bool{}
	var u []int32
	add := func(x int64) {
		if x >= 0 && x <= 0x110001 && !seen[int32(x)] {
			seen[int32(x)] = true
			u = append(u, int32(x))
		}
	}
	for _, p := range widePoints {
		for d := int64(-2); d <= 2; d++ {
			add(int64(p) + d)
		}
	}
	for _, m := range st.model {
		for _, r := range m {
			for d := int64(-1); d <= 1; d++ {
				add(int64(r[0]) + d)
				add(int64(r[1]) + d)
			}
		}
	}
	return u
}

// invariant compares every observer of every slot and every pair with the model.
func (st *setState) invariant() (what string) {
	defer func() {
		if r := recover(); r != nil {
			what = fmt.Sprintf("after %d steps, %s: panic: %v", st.step, st.cur, r)
		}
	}()
	pool, model := st.pool, st.model
	for i, s := range pool {
		if w := wellFormed(s); w != "" {
			return fmt.Sprintf("s%d: %s", i, w)
		}
	}
	u := st.universe()
	for i, s := range pool {
		m := model[i]
		st.cur = fmt.Sprintf("s%d.Has", i)
		for _, x := range u {
			if got, want := s.Has(x), m.has(x); got != want {
				return fmt.Sprintf("s%d.Has(%d) = %v, model %v (model set %v)", i, x, got, want, m.norm())
			}
		}
		for k := len(u) - 1; k >= 0; k -= 2 { // and in descending order, every other point
			if got, want := s.Has(u[k]), m.has(u[k]); got != want {
				return fmt.Sprintf("s%d.Has(%d) = %v (asked after larger values), model %v (model set %v)", i, u[k], got, want, m.norm())
			}
		}
		st.cur = fmt.Sprintf("s%d.Len", i)
		wantLen := m.length()
		if got := s.Len(); got != wantLen {
			return fmt.Sprintf("s%d.Len() = %d, model %d (model set %v)", i, got, wantLen, m.norm())
		}
		if wantLen <= 64 {
			st.cur = fmt.Sprintf("s%d.String", i)
			if got, want := s.String(), m.str(); got != want {
				return fmt.Sprintf("s%d.String() = %q, model %q", i, got, want)
			}
		}
		st.cur = fmt.Sprintf("s%d.Copy", i)
		cp := s.Copy()
		if w := wellFormed(cp); w != "" {
			return fmt.Sprintf("s%d.Copy(): %s", i, w)
		}
		if !cp.Equal(s) || !s.Equal(cp) {
			return fmt.Sprintf("s%d.Copy() is not Equal to s%d (model set %v)", i, i, m.norm())
		}
	}
	for i := range pool {
		for j := range pool {
			st.cur = fmt.Sprintf("s%d.Equal(s%d)", i, j)
			if got, want := pool[i].Equal(pool[j]), model[i].equal(model[j]); got != want {
				return fmt.Sprintf("s%d.Equal(s%d) = %v, model %v (s%d=%v s%d=%v)", i, j, got, want, i, model[i].norm(), j, model[j].norm())
			}
			st.cur = fmt.Sprintf("s%d.Intersects(s%d)", i, j)
			if got, want := pool[i].Intersects(pool[j]), model[i].intersects(model[j]); got != want {
				return fmt.Sprintf("s%d.Intersects(s%d) = %v, model %v (s%d=%v s%d=%v)", i, j, got, want, i, model[i].norm(), j, model[j].norm())
			}
		}
	}
	return ""
}

func (st *setState) classify(m setModel, lo, hi int32) {
	nm := m.norm()
	touch, nested, adjacent := 0, false, false
	for _, r := range nm {
		if int64(lo) <= int64(r[1])+1 && int64(r[0]) <= int64(hi)+1 {
			touch++
		}
		if r[0] <= lo && hi <= r[1] {
			nested = true
		}
		if int64(lo) == int64(r[1])+1 || int64(hi)+1 == int64(r[0]) {
			adjacent = true
		}
	}
	if touch >= 2 {
		st.mark("insert_bridging")
	}
	if nested {
		st.mark("insert_nested")
	}
	if adjacent {
		st.mark("insert_adjacent")
	}
	if lo == 0 {
		st.mark("touches_zero")
	}
	if (!st.c.Wide && hi >= 15) || hi >= 0x10ffff {
		st.mark("touches_limit")
	}
}

// apply performs one operation on the real sets and on the model.
func (st *setState) apply(o setOp) (what string) {
	st.step++
	st.cur = o.String()
	defer func() {
		if r := recover(); r != nil {
			what = fmt.Sprintf("step %d %s: panic: %v", st.step, st.cur, r)
		}
	}()
	pool, model := st.pool, st.model
	for _, s := range pool {
		if w := wellFormed(s); w != "" {
			return fmt.Sprintf("before step %d %s: %s", st.step, st.cur, w)
		}
	}
	switch o.Op {
	case "has":
		if got, want := pool[o.Dst].Has(o.Lo), model[o.Dst].has(o.Lo); got != want {
			return fmt.Sprintf("step %d: s%d.Has(%d) = %v, model %v (model set %v)", st.step, o.Dst, o.Lo, got, want, model[o.Dst].norm())
		}
		st.mark("query_between_mutations")
	case "len":
		if got, want := pool[o.Dst].Len(), model[o.Dst].length(); got != want {
			return fmt.Sprintf("step %d: s%d.Len() = %d, model %d", st.step, o.Dst, got, want)
		}
	case "string":
		if model[o.Dst].length() <= 64 {
			if got, want := pool[o.Dst].String(), model[o.Dst].str(); got != want {
				return fmt.Sprintf("step %d: s%d.String() = %q, model %q", st.step, o.Dst, got, want)
			}
		}
	case "equal":
		if got, want := pool[o.Dst].Equal(pool[o.A]), model[o.Dst].equal(model[o.A]); got != want {
			return fmt.Sprintf("step %d: s%d.Equal(s%d) = %v, model %v", st.step, o.Dst, o.A, got, want)
		}
	case "intersects":
		if got, want := pool[o.Dst].Intersects(pool[o.A]), model[o.Dst].intersects(model[o.A]); got != want {
			return fmt.Sprintf("step %d: s%d.Intersects(s%d) = %v, model %v", st.step, o.Dst, o.A, got, want)
		}
	case "new":
		pool[o.Dst], model[o.Dst] = set.NewSet(), nil
	case "add":
		st.classify(model[o.Dst], o.Lo, o.Lo)
		pool[o.Dst].Add(o.Lo)
		model[o.Dst] = append(append(setModel(nil), model[o.Dst]...), [2]int32{o.Lo, o.Lo})
	case "addrange":
		st.classify(model[o.Dst], o.Lo, o.Hi)
		pool[o.Dst].AddRange(o.Lo, o.Hi)
		model[o.Dst] = append(append(setModel(nil), model[o.Dst]...), [2]int32{o.Lo, o.Hi})
	case "copy":
		r := pool[o.A].Copy()
		pool[o.Dst], model[o.Dst] = r, append(setModel(nil), model[o.A]...)
		st.mark("copy")
	case "union":
		r := pool[o.A].Union(pool[o.B])
		// the operands are observed again by the invariant (their model is unchanged)
		nm := append(append(setModel(nil), model[o.A]...), model[o.B]...)
		pool[o.Dst], model[o.Dst] = r, nm
		st.mark("union")
	case "complement":
		nm := model[o.A].complement(o.Limit)
		if model[o.A].has(o.Limit) || model[o.A].has(0) {
			st.mark("complement_at_boundary")
		}
		if len(nm) == 0 {
			st.mark("complement_result_empty")
		}
		r := pool[o.A].Complement(o.Limit)
		pool[o.Dst], model[o.Dst] = r, nm
		st.mark("complement")
	}
	return ""
}

// runSetCase replays a materialised sequence (invariant after every step).
func runSetCase(c setCase, cls map[string]bool) string {
	st := newSetState(c.Wide)
	if w := st.invariant(); w != "" {
		return "initially: " + w
	}
	for _, o := range c.Ops {
		st.c.Ops = append(st.c.Ops, o)
		if w := st.apply(o); w != "" {
			return w
		}
		if w := st.invariant(); w != "" {
			return fmt.Sprintf("after step %d %s: %s", st.step, o.String(), w)
		}
	}
	for k := range st.cls {
		if cls != nil {
			cls[k] = true
		}
	}
	return ""
}

func setCaseString(c setCase) string {
	parts := make([]string, len(c.Ops))
	for i, o := range c.Ops {
		parts[i] = o.String()
	}
	p := "narrow: "
	if c.Wide {
		p = "wide: "
	}
	return p + strings.Join(parts, "; ")
}

var c16NT = []string{"insert_bridging", "insert_nested", "insert_adjacent", "touches_zero", "touches_limit", "complement_result_empty"}

func c16Shard(c *drv.Ctx, shard, checks int) (*drv.Stats, *drv.Violation, error) {
	st := drv.NewStats()
	var lastCase *setCase
	var lastWhat string
	prop := func(t *rapid.T) {
		sm := newSetState(rapid.IntRange(0, 4).Draw(t, "profile") == 0)
		failed := false
		fail := func(t *rapid.T, what string) {
			cp := sm.c
			cp.Ops = append([]setOp(nil), sm.c.Ops...)
			lastCase, lastWhat = &cp, what
			failed = true
			t.Fatalf("%s", what)
		}
		defer func() {
			// runs also when rapid unwinds a failing case; count every executed sequence
			st.Eval()
			for k := range sm.cls {
				st.Class(k)
			}
			nt := false
			for _, k := range c16NT {
				if sm.cls[k] {
					nt = true
				}
			}
			str := setCaseString(sm.c)
			if nt && !failed && st.Nontrivial(drv.Hash(str)) && len(sm.c.Ops) <= 8 {
				st.Sample(str)
			}
		}()
		t.Repeat(setActions(sm, fail))
		if w := sm.invariant(); w != "" {
			fail(t, w)
		}
	}
	res := drv.RunRapid("C16", checks, drv.ShardSeed(c.Seed, "c16", shard), time.Duration(c.Pick(20, 60))*time.Second, prop)
	if res.Failed {
		if lastCase == nil {
			return st, nil, fmt.Errorf("rapid failed without a recorded case: %s", res.Log)
		}
		return st, &drv.Violation{Property: "C16", Kind: "set-sequence", What: setCaseString(*lastCase) + "\n" + lastWhat, Case: lastCase}, nil
	}
	st.ClassN("rapid_checks_passed", int64(res.Passed))
	return st, nil, nil
}

func init() {
	drv.RegisterShard("c16", c16Shard)
	drv.RegisterReplay("set-sequence", func(c *drv.Ctx, raw json.RawMessage) (string, error) {
		var cs setCase
		if err := json.Unmarshal(raw, &cs); err != nil {
			return "", err
		}
		return runSetCase(cs, nil), nil
	})
	drv.Register("C16",
		"rapid-generated operation sequences (3-30 steps of Add/AddRange/Copy/Union/Complement/New and of observer calls with drawn arguments - Has, Len, String, Equal, Intersects - over a pool of 4 sets; narrow universe [0,16] in 4 of 5 cases, otherwise code-point boundaries up to 0x110000), mirrored in a range-list model; after one step in three on average, and at the end, Has over the whole universe (ascending, then descending), Len, String, Copy, and Equal/Intersects for all 16 ordered pairs are compared. A sequence is non-trivial when it contains an insertion adjacent to, nested in or bridging existing ranges, touches 0 or the limit, or complements a set to the empty set (observers on a computed empty set); distinct = distinct operation sequence.",
		[]string{
			"AddRange is only called with begin <= end and Complement(limit) only on sets whose elements are <= limit+1 (the only orders peg's own callers use); elements are code points in [0, 0x110000]",
			"the model (unnormalised range list, membership by containment) is correct",
		},
		func(c *drv.Ctx) error {
			total := c.Pick(12000, 480000)
			procs := c.Pick(4, 16)
			return drv.RunSharded(c, "c16", total, procs, 30*time.Minute)
		})
}
