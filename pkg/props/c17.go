package props

import (
	"bytes"
	_ "embed"
	"encoding/json"
	"fmt"
	"go/ast"
	"go/parser"
	"go/token"
	"os"
	"os/exec"
	"path/filepath"
	"regexp"
	"runtime"
	"sort"
	"strconv"
	"strings"
	"text/template"
	"time"

	"pgregory.net/rapid"

	"verif/pkg/drv"
	"verif/pkg/fe"
	"verif/pkg/gram"
	"verif/pkg/lab"
	"verif/pkg/lab/proto"
)

// C17 — bootstrap chain and self-regeneration converge on the checked-in front end.

//go:embed tmpl/fecmp_export.go.txt
var fecmpExport string

//go:embed tmpl/fecmp_main.go.txt
var fecmpMain string

var packageClause = regexp.MustCompile(`(?m)^package\s+\w+`)

func goEnvFor(c *drv.Ctx, extra ...string) []string {
	env := append(os.Environ(), "GOFLAGS=-mod=mod", "GOPROXY=off", "GOSUMDB=off", "GOTOOLCHAIN=local", "GOWORK=off")
	// make `go` in scripts the same toolchain
	env = append(env, "PATH="+filepath.Dir(c.Go)+":"+os.Getenv("PATH"))
	return append(env, extra...)
}

// c17Chain runs bootstrap.bash in a scratch copy of the working tree.
func c17Chain(c *drv.Ctx) error {
	dir := filepath.Join(c.Scratch, "chain")
	defer func() {
		_ = exec.Command("chmod", "-R", "u+w", dir).Run()
		_ = os.RemoveAll(dir)
	}()
	if out, err := exec.Command("bash", "-c", fmt.Sprintf("mkdir -p %q && cd %q && tar --exclude=.git -cf - . | tar -xf - -C %q", dir, c.Repo, dir)).CombinedOutput(); err != nil {
		return fmt.Errorf("copying the tree: %v %s", err, out)
	}
	want, err := os.ReadFile(filepath.Join(c.Repo, "peg.peg.go"))
	if err != nil {
		return err
	}
	// the chain must produce the front end by itself: remove the checked-in one first? No -
	// cmd/peg-bootstrap builds its own stages; the last step (go tool peg) needs a working
	// peg.peg.go, which is the output of the previous stage (the script overwrites it).
	cmd := exec.Command("bash", "bootstrap.bash")
	cmd.Dir = dir
	cmd.Env = goEnvFor(c)
	start := time.Now()
	out, err := cmd.CombinedOutput()
	c.Stats.Extra["bootstrap_seconds"] = time.Since(start).Seconds()
	c.Stats.Eval()
	if err != nil {
		c.AddViolation(drv.Violation{Property: "C17", Kind: "bootstrap-chain", What: fmt.Sprintf("bootstrap.bash fails: %v\n%s", err, tail(string(out), 1500)), Case: map[string]string{"part": "chain"}})
		return nil
	}
	got, err := os.ReadFile(filepath.Join(dir, "peg.peg.go"))
	if err != nil {
		return err
	}
	c.Stats.Nontrivial(drv.Hash("chain"))
	c.Stats.Class("bootstrap_chain_run")
	if !bytes.Equal(got, want) {
		c.AddViolation(drv.Violation{Property: "C17", Kind: "bootstrap-chain", What: "the bootstrap chain does not reproduce the checked-in peg.peg.go: " + firstDiff(want, got), Case: map[string]string{"part": "chain"}})
	}
	return nil
}

func tail(s string, n int) string {
	if len(s) > n {
		return s[len(s)-n:]
	}
	return s
}

var feVariants = []lab.Variant{lab.V0, lab.V1, lab.V2, lab.V3}

// c17FrontEnds regenerates front ends from peg.peg under the four option sets and compares
// them with the checked-in one on generated grammar texts.
func c17FrontEnds(c *drv.Ctx, texts []string) (mismatches []map[string]any, summary map[string]int, err error) {
	pegpeg, err := os.ReadFile(filepath.Join(c.Repo, "peg.peg"))
	if err != nil {
		return nil, nil, err
	}
	checked, err := os.ReadFile(filepath.Join(c.Repo, "peg.peg.go"))
	if err != nil {
		return nil, nil, err
	}
	dir := filepath.Join(c.Scratch, "fecmp")
	defer func() {
		_ = exec.Command("chmod", "-R", "u+w", dir).Run()
		_ = os.RemoveAll(dir)
	}()
	_ = os.MkdirAll(dir, 0o755)
	mod := fmt.Sprintf("module fecmp\n\ngo 1.25\n\nrequire github.com/pointlander/peg v0.0.0\n\nreplace github.com/pointlander/peg => %s\n", c.Repo)
	_ = os.WriteFile(filepath.Join(dir, "go.mod"), []byte(mod), 0o644)
	pkgs := []string{"ref"}
	write := func(pkg string, src []byte) {
		pd := filepath.Join(dir, pkg)
		_ = os.MkdirAll(pd, 0o755)
		src = packageClause.ReplaceAll(src, []byte("package "+pkg))
		_ = os.WriteFile(filepath.Join(pd, "peg.peg.go"), src, 0o644)
		var eb bytes.Buffer
		_ = template.Must(template.New("e").Parse(fecmpExport)).Execute(&eb, map[string]any{"Pkg": pkg})
		_ = os.WriteFile(filepath.Join(pd, "export.go"), eb.Bytes(), 0o644)
	}
	write("ref", checked)
	for i, v := range feVariants {
		src, genErr := lab.Generate(string(pegpeg), v, "peg.peg.go")
		c.Stats.Eval()
		if genErr != "" {
			c.AddViolation(drv.Violation{Property: "C17", Kind: "bootstrap-chain", What: fmt.Sprintf("peg %s peg.peg fails: %s", v.Flags(), genErr), Case: map[string]string{"part": "regenerate", "options": v.Flags()}})
			return nil, nil, nil
		}
		if v.Inline && v.Switch && !bytes.Equal(src, regenHeader(checked, src)) {
			// the documented fixed point: peg.peg.go is the output of peg -inline -switch peg.peg
			c.AddViolation(drv.Violation{Property: "C17", Kind: "bootstrap-chain", What: "peg -inline -switch peg.peg does not reproduce the checked-in peg.peg.go: " + firstDiff(regenHeader(checked, src), src), Case: map[string]string{"part": "fixed-point"}})
			return nil, nil, nil
		}
		name := fmt.Sprintf("fe%d", i)
		write(name, src)
		pkgs = append(pkgs, name)
	}
	var mb bytes.Buffer
	_ = template.Must(template.New("m").Parse(fecmpMain)).Execute(&mb, map[string]any{"Pkgs": pkgs})
	_ = os.WriteFile(filepath.Join(dir, "main.go"), mb.Bytes(), 0o644)
	cmd := exec.Command(c.Go, "build", "-o", "fecmp", ".")
	cmd.Dir = dir
	cmd.Env = goEnvFor(c)
	if out, err := cmd.CombinedOutput(); err != nil {
		c.AddViolation(drv.Violation{Property: "C17", Kind: "bootstrap-chain", What: "a front end regenerated from peg.peg does not build: " + tail(string(out), 1500), Case: map[string]string{"part": "regenerate-build"}})
		return nil, nil, nil
	}
	// the comparison is sharded over processes (each text is independent)
	nproc := runtime.NumCPU()
	if nproc > len(texts) {
		nproc = len(texts)
	}
	if nproc < 1 {
		nproc = 1
	}
	type shardRes struct {
		out []byte
		err error
	}
	results := make([]shardRes, nproc)
	offsets := make([]int, nproc)
	done := make(chan int, nproc)
	for k := 0; k < nproc; k++ {
		lo, hi := k*len(texts)/nproc, (k+1)*len(texts)/nproc
		offsets[k] = lo
		go func(k int, part []string) {
			defer func() { done <- k }()
			in, _ := json.Marshal(part)
			run := exec.Command(filepath.Join(dir, "fecmp"))
			run.Dir = dir
			run.Stdin = bytes.NewReader(in)
			var stdout, stderr bytes.Buffer
			run.Stdout, run.Stderr = &stdout, &stderr
			if err := run.Start(); err != nil {
				results[k].err = err
				return
			}
			fin := make(chan error, 1)
			go func() { fin <- run.Wait() }()
			select {
			case err := <-fin:
				if err != nil {
					results[k].err = fmt.Errorf("fecmp: %v %s", err, tail(stderr.String(), 1000))
				}
			case <-time.After(25 * time.Minute):
				_ = run.Process.Kill()
				results[k].err = fmt.Errorf("front-end comparison timed out")
			}
			results[k].out = stdout.Bytes()
		}(k, texts[lo:hi])
	}
	for k := 0; k < nproc; k++ {
		<-done
	}
	summary = map[string]int{}
	for k := 0; k < nproc; k++ {
		if results[k].err != nil {
			return nil, nil, results[k].err
		}
		for _, line := range bytes.Split(bytes.TrimSpace(results[k].out), []byte("\n")) {
			var m map[string]any
			if json.Unmarshal(line, &m) != nil {
				continue
			}
			if _, ok := m["texts"]; ok {
				summary["texts"] += int(m["texts"].(float64))
				summary["accepted"] += int(m["accepted"].(float64))
				continue
			}
			if sl, ok := m["slow"]; ok {
				idx := int(sl.(float64)) + offsets[k]
				summary["slow"]++
				c.Notes = append(c.Notes, fmt.Sprintf("a grammar text of %d bytes took more than 90 s through the five front ends and was skipped: %q", len(texts[idx]), clip(texts[idx], 300)))
				continue
			}
			m["index"] = m["index"].(float64) + float64(offsets[k])
			mismatches = append(mismatches, m)
		}
	}
	sort.Slice(mismatches, func(i, j int) bool { return mismatches[i]["index"].(float64) < mismatches[j]["index"].(float64) })
	return mismatches, summary, nil
}

// regenHeader gives `checked` the header line of `src` (the header echoes the arguments).
func regenHeader(checked, src []byte) []byte {
	i, j := bytes.IndexByte(checked, '\n'), bytes.IndexByte(src, '\n')
	if i < 0 || j < 0 {
		return checked
	}
	return append(append([]byte{}, src[:j]...), checked[i:]...)
}

func c17Texts(c *drv.Ctx, n int) []string {
	fnd, _ := drv.LoadFindings(c.Verif)
	open15 := fnd.OpenShapes("C15")
	var texts []string
	res := drv.RunRapid("C17-texts", n, drv.ShardSeed(c.Seed, "c17-texts", 0), time.Second, func(t *rapid.T) {
		switch rapid.IntRange(0, 5).Draw(t, "kind") {
		case 0, 1:
			texts = append(texts, c10Gen(t).Text)
		case 2:
			texts = append(texts, c10Mutate(t, c10Gen(t)).Text)
		case 3:
			texts = append(texts, c15Gen(t, open15).Text)
		default:
			texts = append(texts, c08Gen(t, fnd.OpenShapes("C08"), 40).Text)
		}
	})
	if res.Failed {
		drv.Inconclusive("collecting grammar texts failed: %s", res.Log)
	}
	for i := range texts {
		texts[i] = strings.ToValidUTF8(texts[i], "�")
	}
	// the repository's own grammars
	for _, f := range shippedGrammarFiles(c) {
		if b, err := os.ReadFile(f); err == nil {
			texts = append(texts, string(b))
		}
	}
	return texts
}

func shippedGrammarFiles(c *drv.Ctx) []string {
	var out []string
	for _, pat := range []string{"peg.peg", "grammars/*/*.peg", "cmd/peg-bootstrap/*.peg"} {
		m, _ := filepath.Glob(filepath.Join(c.Repo, pat))
		out = append(out, m...)
	}
	sort.Strings(out)
	return out
}

// ---------------------------------------------------------------------------------
// shipped grammars

type shipped struct {
	Dir, File, Struct string
	Text              string
	G                 *gram.Grammar // the grammar read back from the front end's tree (nil when that fails): fragments are sampled from it
	Helpers           map[string][]byte
	Samples           []string
}

var structRe = regexp.MustCompile(`(?m)^type\s+(\w+)\s+Peg\b`)

func loadShipped(c *drv.Ctx) []shipped {
	var out []shipped
	files, _ := filepath.Glob(filepath.Join(c.Repo, "grammars", "*", "*.peg"))
	sort.Strings(files)
	for _, f := range files {
		b, err := os.ReadFile(f)
		if err != nil {
			continue
		}
		m := structRe.FindSubmatch(b)
		if m == nil {
			continue
		}
		s := shipped{Dir: filepath.Base(filepath.Dir(f)), File: f, Struct: string(m[1]), Text: string(b), Helpers: map[string][]byte{}}
		func() {
			defer func() { _ = recover() }()
			if r := fe.Parse(s.Text, false, false, false); r.Err == nil && r.Panic == "" && r.Tree != nil {
				if g, problems := readTree(r.Tree); len(problems) == 0 && g != nil && len(g.Rules) > 0 {
					s.G = g
				}
			}
		}()
		gofiles, _ := filepath.Glob(filepath.Join(filepath.Dir(f), "*.go"))
		for _, g := range gofiles {
			src, err := os.ReadFile(g)
			if err != nil {
				continue
			}
			switch {
			case strings.HasSuffix(g, ".peg.go"):
			case strings.HasSuffix(g, "_test.go"):
				// sample inputs: the string literals of the package's tests
				fs := token.NewFileSet()
				af, err := parser.ParseFile(fs, g, src, 0)
				if err != nil {
					continue
				}
				ast.Inspect(af, func(n ast.Node) bool {
					if bl, ok := n.(*ast.BasicLit); ok && bl.Kind == token.STRING {
						if v, err := strconv.Unquote(bl.Value); err == nil && len(v) >= 3 && len(v) < 20000 {
							s.Samples = append(s.Samples, v)
						}
					}
					return true
				})
			default:
				s.Helpers[filepath.Base(g)] = src
			}
		}
		// other sample files in the directory tree
		_ = filepath.Walk(filepath.Dir(f), func(p string, info os.FileInfo, err error) error {
			if err != nil || info.IsDir() {
				return nil
			}
			switch filepath.Ext(p) {
			case ".java", ".fxl", ".c", ".txt":
				if b, err := os.ReadFile(p); err == nil && len(b) < 64<<10 {
					s.Samples = append(s.Samples, string(b))
				}
			}
			return nil
		})
		if s.Dir == "longtest" {
			s.Samples = append(s.Samples, `"`+strings.Repeat("X", 3000)+`"`)
		}
		out = append(out, s)
	}
	return out
}

// c17StrictCLI: every shipped grammar generates under -strict with exit 0 for every option set.
func c17StrictCLI(c *drv.Ctx, sh []shipped) error {
	bin, err := BuildPeg(c, false)
	if err != nil {
		return err
	}
	dir := filepath.Join(c.Scratch, "c17cli")
	_ = os.MkdirAll(dir, 0o755)
	defer os.RemoveAll(dir)
	// the fixed point through the command itself, installed under other names than "peg"
	// and started through a relative, an absolute and a PATH-resolved name: the checked-in
	// file, first line included, is what `peg -inline -switch peg.peg` writes
	if pegpeg, err := os.ReadFile(filepath.Join(c.Repo, "peg.peg")); err == nil {
		checked, _ := os.ReadFile(filepath.Join(c.Repo, "peg.peg.go"))
		binBytes, _ := os.ReadFile(bin)
		for _, name := range []string{"peg", "peg-regen", "peg.exe", "peg_v2"} {
			fp := filepath.Join(dir, "fp-"+name)
			_ = os.MkdirAll(fp, 0o755)
			_ = os.WriteFile(filepath.Join(fp, "peg.peg"), pegpeg, 0o644)
			_ = os.WriteFile(filepath.Join(fp, name), binBytes, 0o755)
			for _, how := range []string{"relative", "absolute", "path"} {
				_ = os.Remove(filepath.Join(fp, "peg.peg.go"))
				cmdName, env := "./"+name, []string(nil)
				switch how {
				case "absolute":
					cmdName = filepath.Join(fp, name)
				case "path":
					cmdName, env = name, []string{"PATH=" + fp + string(os.PathListSeparator) + os.Getenv("PATH")}
				}
				var exit int
				var stderr string
				if how == "path" {
					exit, _, stderr = runPeg("/bin/sh", fp, "", env, "-c", name+" -inline -switch peg.peg")
				} else {
					exit, _, stderr = runPeg(cmdName, fp, "", env, "-inline", "-switch", "peg.peg")
				}
				c.Stats.Eval()
				c.Stats.Class("fixed_point_through_command_named_" + name)
				got, _ := os.ReadFile(filepath.Join(fp, "peg.peg.go"))
				if exit != 0 || !bytes.Equal(got, checked) {
					c.AddViolation(drv.Violation{Property: "C17", Kind: "bootstrap-chain", What: fmt.Sprintf("the command installed as %q (started by %s name) run as `%s -inline -switch peg.peg` does not reproduce the checked-in peg.peg.go (exit %d, stderr %q): %s", name, how, name, exit, tail(stderr, 300), firstDiff(checked, got)), Case: map[string]string{"part": "fixed-point-cli", "name": name, "how": how}})
					return nil
				}
			}
		}
	}
	type job struct {
		s shipped
		v lab.Variant
	}
	var jobs []job
	for _, s := range sh {
		for _, v := range lab.AllVariants {
			jobs = append(jobs, job{s, v})
		}
	}
	res := make([]string, len(jobs))
	sem := make(chan struct{}, runtime.NumCPU())
	done := make(chan int, len(jobs))
	for i, j := range jobs {
		go func(i int, j job) {
			sem <- struct{}{}
			defer func() { <-sem; done <- i }()
			out := filepath.Join(dir, fmt.Sprintf("o%d.go", i))
			args := append(j.v.Args()[1:], "-strict", "-output", out, j.s.File)
			exit, _, stderr := runPeg(bin, dir, "", nil, args...)
			if exit != 0 || strings.TrimSpace(stderr) != "" {
				res[i] = fmt.Sprintf("peg %s -strict grammars/%s/%s: exit %d, stderr %q", j.v.Flags(), j.s.Dir, filepath.Base(j.s.File), exit, tail(stderr, 400))
			}
		}(i, j)
	}
	for range jobs {
		<-done
	}
	for i, j := range jobs {
		c.Stats.Eval()
		c.Stats.Class("shipped_strict_generation")
		if res[i] != "" && len(c.Violations) == 0 {
			c.AddViolation(drv.Violation{Property: "C17", Kind: "bootstrap-chain", What: res[i], Case: map[string]string{"part": "strict", "grammar": j.s.Dir, "options": j.v.Flags()}})
		}
	}
	return nil
}

type shippedCase struct {
	Grammar string     `json:"grammar"`
	Input   proto.QStr `json:"input"`
	// Entry: index of the rule the parse starts from (0: the grammar's first rule, as Parse()
	// without argument); Rule is its name, for the reader
	Entry int    `json:"entry,omitempty"`
	Rule  string `json:"rule,omitempty"`
}

func entryNote(cs shippedCase) string {
	if cs.Entry > 0 {
		return " (parse started from rule " + cs.Rule + ")"
	}
	return ""
}

func mutateBytes(t *rapid.T, s string) string {
	b := []byte(s)
	n := rapid.IntRange(0, 3).Draw(t, "nmut")
	for i := 0; i < n && len(b) > 0; i++ {
		pos := rapid.IntRange(0, len(b)-1).Draw(t, "pos")
		switch rapid.IntRange(0, 5).Draw(t, "kind") {
		case 0:
			l := rapid.IntRange(1, 8).Draw(t, "len")
			if pos+l > len(b) {
				l = len(b) - pos
			}
			b = append(b[:pos], b[pos+l:]...)
		case 1:
			ins := rapid.SampledFrom([]string{"(", ")", "{", "}", ";", "\"", "'", " ", "\n", "0", "x", "+", "*", "/*", "*/", "//", "\\", "é", "\x00", "\xff", "int", "class"}).Draw(t, "ins")
			b = append(b[:pos], append([]byte(ins), b[pos:]...)...)
		case 2:
			b = b[:pos]
		case 3:
			l := rapid.IntRange(1, 20).Draw(t, "dup")
			if pos+l > len(b) {
				l = len(b) - pos
			}
			b = append(b[:pos+l], append(append([]byte{}, b[pos:pos+l]...), b[pos+l:]...)...)
		case 4:
			b[pos] = byte(rapid.IntRange(0, 255).Draw(t, "byte"))
		case 5:
			q := rapid.IntRange(0, len(b)-1).Draw(t, "q")
			b[pos], b[q] = b[q], b[pos]
		}
	}
	return string(b)
}

// buildShipped generates the four AST variants of every shipped grammar with the current
// tree and compiles them (with the package's helper files) into one lab binary.
func buildShipped(c *drv.Ctx, sh []shipped) (*lab.Lab, error) {
	var raws []lab.RawPackage
	for _, s := range sh {
		for _, v := range feVariants {
			name := s.Dir + v.Name
			src, genErr := lab.Generate(s.Text, v, filepath.Base(s.File)+".go")
			c.Stats.Eval()
			if genErr != "" {
				c.AddViolation(drv.Violation{Property: c.ID, Kind: "bootstrap-chain", What: fmt.Sprintf("shipped grammar grammars/%s does not generate under -strict with %q: %s", s.Dir, v.Flags(), genErr), Case: map[string]string{"part": "strict", "grammar": s.Dir, "options": v.Flags()}})
				return nil, nil
			}
			files := map[string][]byte{"parser.peg.go": packageClause.ReplaceAll(src, []byte("package "+name))}
			for fn, hb := range s.Helpers {
				files[fn] = packageClause.ReplaceAll(hb, []byte("package "+name))
			}
			raws = append(raws, lab.RawPackage{Name: name, Struct: s.Struct, Files: files})
		}
	}
	// the native fuzz target of the thorough tier lives in the same module
	type seed struct {
		G  int
		In string
	}
	var names []string
	var seeds []seed
	for gi, s := range sh {
		names = append(names, s.Dir)
		for _, in := range s.Samples {
			if len(in) <= 1500 && len(seeds) < 200 {
				seeds = append(seeds, seed{gi, strconv.Quote(in)})
			}
		}
	}
	var fb bytes.Buffer
	if err := template.Must(template.New("f").Parse(lab.FuzzShippedTemplate)).Execute(&fb, map[string]any{"Grammars": names, "Seeds": seeds}); err != nil {
		return nil, err
	}
	l, err := lab.BuildRaw(c, raws, lab.Options{ExtraFiles: map[string][]byte{"fuzz_test.go": fb.Bytes()}})
	if err != nil {
		return nil, err
	}
	for _, n := range l.Order {
		if p := l.Pkgs[n]; p.BuildErr != "" {
			c.AddViolation(drv.Violation{Property: c.ID, Kind: "bootstrap-chain", What: fmt.Sprintf("the parser generated for shipped grammar package %s does not compile: %s", n, tail(p.BuildErr, 800)), Case: map[string]string{"part": "shipped-build", "package": n}})
			l.Close()
			return nil, nil
		}
	}
	return l, nil
}

// judgeShipped compares the observations of the four variants (and memo modes) of one input.
func judgeShipped(obs map[string]*proto.Obs) string {
	// a memoising parser that burns CPU time without end where the parser of another option
	// set decides the same input at once
	var spinning, finished []string
	for _, k := range sortedKeys(obs) {
		if strings.HasSuffix(k, "/memo") {
			if strings.HasPrefix(obs[k].Unstable, "does not terminate") {
				spinning = append(spinning, k+" "+obs[k].Unstable)
			} else {
				finished = append(finished, k)
			}
		}
	}
	if len(spinning) > 0 && len(finished) > 0 {
		return fmt.Sprintf("the memoising parser %s, while %v return at once on the same input", spinning[0], finished)
	}
	for _, s := range spinning {
		delete(obs, strings.SplitN(s, " ", 2)[0])
	}
	base := obs["v0/memo"]
	if base == nil {
		return ""
	}
	if base.NilRule {
		return ""
	}
	for _, k := range sortedKeys(obs) {
		o := obs[k]
		switch {
		case o.NilRule:
			// the rule was expanded in place under this option set: no entry point
		case o.Panic != "":
			return fmt.Sprintf("variant %s panicked: %s", k, o.Panic)
		case o.OK != base.OK:
			return fmt.Sprintf("verdict differs: %s ok=%v, default options ok=%v", k, o.OK, base.OK)
		case o.OK && !sameObsToks(o.Tokens, base.Tokens):
			return fmt.Sprintf("token lists differ between %s (%d tokens) and the default parser (%d tokens)", k, len(o.Tokens), len(base.Tokens))
		}
	}
	return ""
}

func runShippedInputs(c *drv.Ctx, l *lab.Lab, cases []shippedCase) []map[string]*proto.Obs {
	var reqs []proto.Req
	type ref struct {
		ci   int
		v    string
		mode []proto.Mode
	}
	var refs []ref
	for ci, cs := range cases {
		for _, v := range feVariants {
			// one request per memo mode: without the memo table a parser may legitimately
			// need exponential time, with it it may not
			reqs = append(reqs, proto.Req{Kind: "run", Pkg: cs.Grammar + v.Name, Entry: cs.Entry, Input: cs.Input, Modes: []proto.Mode{memoMode}})
			refs = append(refs, ref{ci, v.Name, []proto.Mode{memoMode}})
			if len(cs.Input) <= 160 {
				reqs = append(reqs, proto.Req{Kind: "run", Pkg: cs.Grammar + v.Name, Entry: cs.Entry, Input: cs.Input, Modes: []proto.Mode{noMemoMode}})
				refs = append(refs, ref{ci, v.Name, []proto.Mode{noMemoMode}})
			}
		}
	}
	outs := l.Run(reqs, runtime.NumCPU(), 30*time.Second)
	res := make([]map[string]*proto.Obs, len(cases))
	for i := range res {
		res[i] = map[string]*proto.Obs{}
	}
	for i, o := range outs {
		r := refs[i]
		if o.Diverged > 0 && !r.mode[0].NoMemo {
			// CPU time of the worker itself, not elapsed time (see lab.Outcome.Diverged);
			// judged against the other option sets in judgeShipped
			res[r.ci][r.v+"/"+modeKey(r.mode[0])] = &proto.Obs{Unstable: fmt.Sprintf("does not terminate (%.0f s of CPU time)", o.Diverged)}
			continue
		}
		if o.Hang {
			c.Stats.Class("shipped_request_watchdog (memo-free or pathological input, skipped)")
			continue
		}
		if o.Died != "" {
			res[r.ci][r.v+"/died"] = &proto.Obs{Panic: "worker died: " + firstLine(o.Died)}
			continue
		}
		for j, m := range r.mode {
			if j < len(o.Resp.Obs) {
				ob := o.Resp.Obs[j]
				res[r.ci][r.v+"/"+modeKey(m)] = &ob
			}
		}
	}
	return res
}

func c17Shipped(c *drv.Ctx, sh []shipped, n int) error {
	l, err := buildShipped(c, sh)
	if err != nil || l == nil {
		return err
	}
	defer l.Close()
	c.Stats.Extra["shipped_build_seconds"] = l.BuildSeconds
	var cases []shippedCase
	for _, s := range sh {
		for _, in := range s.Samples {
			cases = append(cases, shippedCase{Grammar: s.Dir, Input: proto.QStr(in)})
		}
	}
	nSamples := len(cases)
	res := drv.RunRapid("C17-shipped", n, drv.ShardSeed(c.Seed, "c17-shipped", 0), time.Second, func(t *rapid.T) {
		s := sh[rapid.IntRange(0, len(sh)-1).Draw(t, "grammar")]
		if len(s.Samples) == 0 {
			return
		}
		in := s.Samples[rapid.IntRange(0, len(s.Samples)-1).Draw(t, "sample")]
		if s.G != nil && rapid.IntRange(0, 2).Draw(t, "fragment?") == 0 {
			// grammar-directed: a fragment sampled from one of the grammar's own rules (every
			// terminal of the grammar can turn up, escapes and all) replaces a stretch of a
			// repository sample, or is parsed by itself
			ch := gram.RapidChooser{T: t}
			frag := string(gram.Sample(s.G, rapid.IntRange(0, len(s.G.Rules)-1).Draw(t, "fragrule"), ch, 40))
			switch rapid.IntRange(0, 4).Draw(t, "fragwhere") {
			case 0, 4:
				// the fragment is parsed from the rule it was sampled from: every rule that
				// keeps its own function under all option sets is an entry point
				ri := rapid.IntRange(0, len(s.G.Rules)-1).Draw(t, "fragentry")
				frag = string(gram.Sample(s.G, ri, ch, 40))
				cases = append(cases, shippedCase{Grammar: s.Dir, Input: proto.QStr(frag), Entry: ri, Rule: s.G.Rules[ri].Name})
				return
			case 1:
				in = string(gram.SamplePumped(s.G, 0, ch, 400, 4))
			default:
				at := rapid.IntRange(0, len(in)).Draw(t, "fragat")
				cut := rapid.IntRange(0, 12).Draw(t, "fragcut")
				if at+cut > len(in) {
					cut = len(in) - at
				}
				in = in[:at] + frag + in[at+cut:]
			}
			cases = append(cases, shippedCase{Grammar: s.Dir, Input: proto.QStr(in)})
			return
		}
		cases = append(cases, shippedCase{Grammar: s.Dir, Input: proto.QStr(mutateBytes(t, in))})
	})
	if res.Failed {
		return fmt.Errorf("collecting inputs failed: %s", res.Log)
	}
	// systematically: every rule of every shipped grammar as the start rule, on fragments
	// sampled from that rule (and one mutation of each)
	perRule := c.Pick(4, 12)
	type ruleRef struct {
		s  *shipped
		ri int
	}
	var allRules []ruleRef
	for i := range sh {
		if sh[i].G != nil {
			for ri := range sh[i].G.Rules {
				allRules = append(allRules, ruleRef{&sh[i], ri})
			}
		}
	}
	// one rapid case per rule (and some warm-up cases first: the library draws small values
	// in its first cases, which would always take the first alternative of every choice)
	const warm = 40
	k := 0
	res = drv.RunRapid("C17-rule-entries", warm+len(allRules), drv.ShardSeed(c.Seed, "c17-rule-entries", 0), time.Second, func(t *rapid.T) {
		idx := k - warm
		k++
		ch := gram.RapidChooser{T: t}
		if idx < 0 || idx >= len(allRules) {
			_ = ch.Intn(3)
			return
		}
		s, ri := allRules[idx].s, allRules[idx].ri
		for j := 0; j < perRule; j++ {
			frag := gram.Sample(s.G, ri, ch, 40)
			cases = append(cases, shippedCase{Grammar: s.Dir, Input: proto.QStr(string(frag)), Entry: ri, Rule: s.G.Rules[ri].Name})
			if j == 0 {
				cases = append(cases, shippedCase{Grammar: s.Dir, Input: proto.QStr(string(gram.Mutate(frag, ch))), Entry: ri, Rule: s.G.Rules[ri].Name})
			}
		}
	})
	if res.Failed {
		return fmt.Errorf("collecting rule-entry inputs failed: %s", res.Log)
	}
	obs := runShippedInputs(c, l, cases)
	if os.Getenv("VERIF_DEBUG") != "" {
		for i, cs := range cases {
			if cs.Rule == "Escape" || cs.Rule == "UnicodeEscape" {
				fmt.Fprintf(os.Stderr, "DEBUG %s entry %d %s input %q:", cs.Grammar, cs.Entry, cs.Rule, string(cs.Input))
				for _, k := range sortedKeys(obs[i]) {
					o := obs[i][k]
					fmt.Fprintf(os.Stderr, " %s[nil=%v ok=%v %s]", k, o.NilRule, o.OK, o.Unstable)
				}
				fmt.Fprintln(os.Stderr)
			}
		}
	}
	for i, cs := range cases {
		c.Stats.Eval()
		base := obs[i]["v0/memo"]
		if base != nil {
			accepted := base.OK
			far := base.ErrTok != nil && base.ErrTok.E >= 10
			if (accepted || far) && c.Stats.Nontrivial(drv.Hash(cs.Grammar, string(cs.Input))) {
				if cs.Entry > 0 {
					c.Stats.Class("nt_fragment_parsed_from_its_own_rule:" + cs.Grammar)
				} else if i < nSamples {
					c.Stats.Class("nt_repository_sample:" + cs.Grammar)
				} else if accepted {
					c.Stats.Class("nt_mutation_accepted:" + cs.Grammar)
				} else {
					c.Stats.Class("nt_mutation_rejected_after_10_runes:" + cs.Grammar)
				}
				if len(cs.Input) < 60 {
					c.Stats.Sample(map[string]any{"grammar": cs.Grammar, "input": strconv.QuoteToASCII(string(cs.Input)), "accepted": accepted})
				}
			}
		}
		if what := judgeShipped(obs[i]); what != "" && len(c.Violations) == 0 {
			_ = i
			// shrink the input with the same binary
			cur := cs
			for round := 0; round < 12; round++ {
				var cands []shippedCase
				for _, in := range inputReductions(string(cur.Input)) {
					cands = append(cands, shippedCase{Grammar: cur.Grammar, Input: proto.QStr(in), Entry: cur.Entry, Rule: cur.Rule})
				}
				if len(cands) > 64 {
					cands = cands[:64]
				}
				ro := runShippedInputs(c, l, cands)
				best := -1
				for k := range cands {
					if w := judgeShipped(ro[k]); w != "" && (best < 0 || len(cands[k].Input) < len(cands[best].Input)) {
						best = k
					}
				}
				if best < 0 || len(cands[best].Input) >= len(cur.Input) {
					break
				}
				cur, what = cands[best], judgeShipped(ro[best])
			}
			c.AddViolation(drv.Violation{Property: "C17", Kind: "shipped-input", What: fmt.Sprintf("grammars/%s on input %q: %s", cur.Grammar, string(cur.Input), what), Case: cur})
		}
	}
	if c.Thorough() && len(c.Violations) == 0 {
		shippedNativeFuzz(c, l, sh, 150*time.Second)
	}
	return nil
}

// shippedNativeFuzz runs the coverage-guided campaign over the shipped grammars' parsers.
func shippedNativeFuzz(c *drv.Ctx, l *lab.Lab, sh []shipped, d time.Duration) {
	res, err := runNativeFuzz(c, l.Dir, "FuzzShipped", d)
	if err != nil {
		c.Notes = append(c.Notes, "native fuzzing of the shipped parsers did not run: "+firstLine(err.Error()))
		return
	}
	c.Stats.Extra["native_fuzz_execs"] = res.Execs
	c.Stats.Extra["native_fuzz_seconds"] = res.Seconds
	c.Stats.Evaluations += res.Execs
	if !res.Failed {
		return
	}
	if res.Baseline || len(res.Args) < 2 {
		c.AddViolation(drv.Violation{Property: c.ID, Kind: "shipped-input", What: "a seed input of the shipped parsers fails in the fuzz target:\n" + tail(res.Output, 1500), Case: shippedCase{}})
		return
	}
	gn, _ := strconv.Atoi(res.Args[0])
	gi := gn % len(sh)
	cs := shippedCase{Grammar: sh[gi].Dir, Input: proto.QStr(res.Args[1])}
	what := judgeShipped(runShippedInputs(c, l, []shippedCase{cs})[0])
	if what == "" {
		// only what the deterministic path reproduces is a violation: the fuzzing engine also
		// stops when one execution takes long ("fuzzing process hung or terminated
		// unexpectedly"), and elapsed time is never a correctness signal
		c.Stats.Class("native_fuzz_stopped_without_reproducible_failure")
		c.Notes = append(c.Notes, fmt.Sprintf("native fuzzing stopped on grammars/%s, input %q, which the worker does not reproduce (treated as a slow execution): %s", cs.Grammar, string(cs.Input), firstLine(tail(res.Output, 300))))
		return
	}
	c.AddViolation(drv.Violation{Property: c.ID, Kind: "shipped-input", What: fmt.Sprintf("grammars/%s%s on input %q: %s", cs.Grammar, entryNote(cs), string(cs.Input), what), Case: cs})
}

func c17Run(c *drv.Ctx) error {
	if err := c17Chain(c); err != nil || len(c.Violations) > 0 {
		return err
	}
	texts := c17Texts(c, c.Pick(600, 12000))
	mm, summary, err := c17FrontEnds(c, texts)
	if err != nil || len(c.Violations) > 0 {
		return err
	}
	c.Stats.Evaluations += int64(len(texts) * len(feVariants))
	for i, t := range texts {
		if c.Stats.Nontrivial(drv.Hash("fe", t)) {
			c.Stats.Class("nt_grammar_text_through_5_front_ends")
			if i < 2 && len(t) < 500 {
				c.Stats.Sample(map[string]any{"grammar_text": strings.Split(t, "\n")})
			}
		}
	}
	if summary != nil {
		c.Stats.ClassN("front_end_texts_accepted", int64(summary["accepted"]))
		c.Stats.ClassN("front_end_texts_rejected", int64(summary["texts"]-summary["accepted"]))
	}
	if len(mm) > 0 {
		m := mm[0]
		idx := int(m["index"].(float64))
		c.AddViolation(drv.Violation{Property: "C17", Kind: "frontend-text",
			What: fmt.Sprintf("the front end regenerated from peg.peg with %q differs from the checked-in one on a grammar text:\n checked-in: %v\n regenerated: %v\n--- text ---\n%s",
				feVariants[int(m["front"].(string)[2]-'0')].Flags(), m["ref"], m["got"], texts[idx]),
			Case: map[string]string{"text": texts[idx]}})
		return nil
	}
	sh := loadShipped(c)
	if len(sh) == 0 {
		return fmt.Errorf("no shipped grammars found under %s/grammars", c.Repo)
	}
	if err := c17StrictCLI(c, sh); err != nil || len(c.Violations) > 0 {
		return err
	}
	return c17Shipped(c, sh, c.Pick(600, 20000))
}

func init() {
	drv.RegisterReplay("bootstrap-chain", func(c *drv.Ctx, raw json.RawMessage) (string, error) {
		cc := *c
		cc.Stats = drv.NewStats()
		cc.Violations = nil
		if err := c17Chain(&cc); err != nil {
			return "", err
		}
		if len(cc.Violations) == 0 {
			sh := loadShipped(&cc)
			if _, _, err := c17FrontEnds(&cc, nil); err != nil {
				return "", err
			}
			if len(cc.Violations) == 0 {
				_ = c17StrictCLI(&cc, sh)
			}
		}
		if len(cc.Violations) > 0 {
			return cc.Violations[0].What, nil
		}
		return "", nil
	})
	drv.RegisterReplay("frontend-text", func(c *drv.Ctx, raw json.RawMessage) (string, error) {
		var m map[string]string
		if err := json.Unmarshal(raw, &m); err != nil {
			return "", err
		}
		cc := *c
		cc.Stats = drv.NewStats()
		cc.Violations = nil
		mm, _, err := c17FrontEnds(&cc, []string{m["text"]})
		if err != nil {
			return "", err
		}
		if len(cc.Violations) > 0 {
			return cc.Violations[0].What, nil
		}
		if len(mm) > 0 {
			return fmt.Sprintf("regenerated front end %v differs: %v vs %v", mm[0]["front"], mm[0]["ref"], mm[0]["got"]), nil
		}
		return "", nil
	})
	drv.RegisterReplay("shipped-input", func(c *drv.Ctx, raw json.RawMessage) (string, error) {
		var cs shippedCase
		if err := json.Unmarshal(raw, &cs); err != nil {
			return "", err
		}
		cc := *c
		cc.Stats = drv.NewStats()
		cc.Violations = nil
		var sh []shipped
		for _, s := range loadShipped(&cc) {
			if s.Dir == cs.Grammar {
				sh = append(sh, s)
			}
		}
		l, err := buildShipped(&cc, sh)
		if err != nil {
			return "", err
		}
		if l == nil {
			return cc.Violations[0].What, nil
		}
		defer l.Close()
		return judgeShipped(runShippedInputs(&cc, l, []shippedCase{cs})[0]), nil
	})
	drv.Register("C17",
		"(1) the bootstrap chain (bootstrap.bash: hand-built tree -> bootstrap grammars -> peg.peg, six generations) is run once in a scratch copy of the working tree and must reproduce the checked-in peg.peg.go byte for byte - a single deterministic evaluation, there is no input space; peg -inline -switch peg.peg must equal peg.peg.go (the documented fixed point). (2) front ends are regenerated from peg.peg under {none, -inline, -switch, -inline -switch}, built beside the checked-in one, and all five are run on rapid-generated grammar texts (valid renderings with spelling variants, mutated/malformed texts, ill-formed grammars with diagnostics, code-generation test grammars) plus every .peg file of the repository: same accept/reject verdict, same rule tree (dumped through the exported accessors) and byte-identical Compile output or identical diagnostics for six option sets. (3) every shipped grammar must generate with -strict, exit 0 and silent stderr under all eight option sets (built binary); the four AST variants of each shipped grammar are compiled with the package's own helper code and run on the repository's samples (string literals of the packages' tests, example files) and on rapid-drawn byte mutations of them: verdicts and token lists must agree across option sets and, for inputs up to 160 bytes, between memo modes. Non-trivial: a grammar text through all front ends; a repository sample; a mutation that is accepted or rejected after >=10 runes; distinct by text / (grammar, input).",
		[]string{
			"-noast front ends are excluded: the front end needs Execute",
			"parse-error messages of front ends are not compared (the furthest token may legitimately differ under -switch), only the verdict",
		},
		c17Run)
	_ = gram.KSeq
}

func init() {
	// ./check --tool c17texts <substring>: print the generated grammar texts containing it
	drv.RegisterTool("c17texts", func(c *drv.Ctx, args []string) int {
		c.Tier = "quick"
		for i, t := range c17Texts(c, 600) {
			if len(args) == 0 || strings.Contains(t, args[0]) {
				fmt.Printf("---- text %d (%d bytes)\n%s\n", i, len(t), t)
			}
		}
		return 0
	})
}
