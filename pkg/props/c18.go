package props

import (
	"bytes"
	"encoding/json"
	"fmt"
	"go/parser"
	"go/token"
	"os"
	"os/exec"
	"path/filepath"
	"strings"
	"time"
	"verif/pkg/fe"

	"pgregory.net/rapid"

	"verif/pkg/drv"
	"verif/pkg/gram"
	"verif/pkg/lab"
)

// C18 — the CLI exits zero only after writing a complete parser.

type cliScenario struct {
	Grammar  string   `json:"grammar"` // valid | warned | syntax-error | empty | bad-go
	Text     string   `json:"text"`
	Source   string   `json:"source"`              // file | stdin | dash | missing | directory
	Dest     string   `json:"dest"`                // default | named | stdout | missing-parent | directory | device-full | stdout-full
	Existing string   `json:"existing,omitempty"`  // what the destination file holds beforehand: "" | shorter | longer
	LongLine int      `json:"long_line,omitempty"` // the text holds one comment line of this many bytes (sizes around the usual I/O buffer limits)
	Flags    []string `json:"flags"`
	Extra    bool     `json:"extra_grammar_argument,omitempty"` // a second, valid grammar file is named after the first
}

func (s cliScenario) String() string {
	ex := ""
	if s.Existing != "" {
		ex = " existing-destination=" + s.Existing
	}
	if s.LongLine > 0 {
		ex += fmt.Sprintf(" comment-line-of-%d-bytes", s.LongLine)
	}
	if s.Extra {
		ex += " followed-by-a-second-valid-grammar-argument"
	}
	return fmt.Sprintf("grammar=%s source=%s dest=%s%s flags=%v", s.Grammar, s.Source, s.Dest, ex, s.Flags)
}

func c18Gen(t *rapid.T) cliScenario {
	var sc cliScenario
	sc.Grammar = rapid.SampledFrom([]string{"valid", "valid", "warned", "syntax-error", "empty", "bad-go", "duplicate"}).Draw(t, "grammar")
	p := gram.Profiles["plain"]
	p.MaxRules, p.Depth, p.WPred, p.WState = 3, 2, 0, 0
	g := gram.WellFormedGrammar(t, p)
	g.Package, g.Struct, g.Fields = "g", "G", "\n N int\n"
	for _, r := range g.Rules {
		r.Body.Walk(func(e *gram.Expr) {
			if e.K == gram.KAct {
				e.Code = " p.N++ "
			}
		})
	}
	switch sc.Grammar {
	case "warned":
		g.Rules = append(g.Rules, &gram.Rule{Name: "Unused", Body: gram.Lit("u")})
	case "duplicate":
		// a rule defined twice: an error of the grammar that only generation notices
		r := g.Rules[rapid.IntRange(0, len(g.Rules)-1).Draw(t, "duprule")]
		g.Rules = append(g.Rules, &gram.Rule{Name: r.Name, Body: gram.Lit("z")})
	case "bad-go":
		// an action that is not Go: generation produces a file that does not parse
		g.Rules[0].Body = gram.Seq(g.Rules[0].Body, &gram.Expr{K: gram.KAct, Code: " ) ( "})
	}
	pr := gram.Printer{G: g}
	sc.Text = pr.Text()
	switch sc.Grammar {
	case "syntax-error":
		if rapid.Bool().Draw(t, "errlast") {
			// the error sits in one more definition behind a grammar that is complete without
			// it: whatever stops reading there has a whole parser to write
			sc.Text += rapid.SampledFrom([]string{"Extra <- 'x' <- <- 'y'\n", "Extra <- ('x'\n", "Extra <- 'x' )\n", "Extra <- [a\n", "Extra <- 'x\n"}).Draw(t, "errdef")
			break
		}
		cut := rapid.IntRange(1, len(sc.Text)-1).Draw(t, "cut")
		sc.Text = sc.Text[:cut] + rapid.SampledFrom([]string{" <- <- ", " ) ", " ' ", "\x00"}).Draw(t, "junk") + sc.Text[cut:]
		if rapid.Bool().Draw(t, "trunc") {
			sc.Text = sc.Text[:cut]
		}
		// the splice may have produced another valid grammar: make sure it is rejected
		if r := fe.Parse(sc.Text, false, false, false); r.Err == nil && r.Panic == "" {
			sc.Text += "\n<- <-\n"
		}
	case "empty":
		sc.Text = rapid.SampledFrom([]string{"", "\n", "# only a comment\n"}).Draw(t, "emptytext")
	case "valid", "warned":
		if rapid.IntRange(0, 3).Draw(t, "longline?") == 0 {
			// a grammar is text of any shape: one very long line (sizes around the limits of
			// line- and block-buffered readers) in front of a rule that the parser needs
			sc.LongLine = rapid.SampledFrom([]int{4095, 4096, 4097, 65535, 65536, 65537, 70000, 1 << 20}).Draw(t, "longlen")
			lines := strings.SplitAfter(sc.Text, "\n")
			var starts []int
			for i, l := range lines {
				if i > 0 && strings.Contains(l, "<-") {
					starts = append(starts, i)
				}
			}
			at := len(lines)
			if len(starts) > 0 {
				at = starts[rapid.IntRange(0, len(starts)-1).Draw(t, "longat")]
			}
			long := "#" + strings.Repeat("x", sc.LongLine-2) + "\n"
			sc.Text = strings.Join(lines[:at], "") + long + strings.Join(lines[at:], "")
		}
	}
	sc.Source = rapid.SampledFrom([]string{"file", "file", "stdin", "dash", "missing", "directory", "stdin-file", "stdin-devnull"}).Draw(t, "source")
	if sc.Source == "stdin-devnull" {
		// standard input is the null device: an empty grammar, through a character device
		sc.Grammar, sc.Text, sc.LongLine = "empty", "", 0
	}
	sc.Dest = rapid.SampledFrom([]string{"default", "named", "stdout", "missing-parent", "directory", "device-full", "stdout-full"}).Draw(t, "dest")
	sc.Existing = rapid.SampledFrom([]string{"", "", "shorter", "longer"}).Draw(t, "existing")
	for _, f := range []string{"-inline", "-switch", "-noast", "-strict"} {
		if rapid.Bool().Draw(t, f) {
			sc.Flags = append(sc.Flags, f)
		}
	}
	// a second grammar named on the same command line: whatever the command does with it, a
	// zero exit status still requires the parser of the first
	if src := sc.Source; src == "file" || src == "missing" || src == "directory" {
		sc.Extra = rapid.IntRange(0, 3).Draw(t, "extra") == 0
	}
	return sc
}

func looksLikeParser(src []byte, structName string) string {
	if _, err := parser.ParseFile(token.NewFileSet(), "out.go", src, 0); err != nil {
		return "the written file does not parse as Go: " + err.Error()
	}
	if !strings.Contains(string(src), "func (p *"+structName+"[U]) Init(") || !strings.Contains(string(src), "\n\treturn nil\n}") {
		return "the written file is not a complete parser (no Init method / truncated)"
	}
	return ""
}

// runScenario executes one scenario in a fresh directory and judges it.
func runScenario(c *drv.Ctx, bin string, sc cliScenario, n int) string {
	dir := filepath.Join(c.Scratch, fmt.Sprintf("c18-%d-%d", os.Getpid(), n))
	_ = os.MkdirAll(dir, 0o755)
	defer os.RemoveAll(dir)
	args := append([]string{}, sc.Flags...)
	stdin, stdinPath := "", ""
	grammarFile := "in.peg"
	var destPath string // "" => stdout
	switch sc.Dest {
	case "named":
		destPath = filepath.Join(dir, "out", "parser.go")
		_ = os.MkdirAll(filepath.Join(dir, "out"), 0o755)
		args = append(args, "-output", destPath)
	case "stdout":
		args = append(args, "-output", "-")
	case "missing-parent":
		destPath = filepath.Join(dir, "no", "such", "dir", "parser.go")
		args = append(args, "-output", destPath)
	case "directory":
		destPath = filepath.Join(dir, "adir")
		_ = os.MkdirAll(destPath, 0o755)
		args = append(args, "-output", destPath)
	case "device-full":
		// opens, but every write fails with ENOSPC
		destPath = "/dev/full"
		args = append(args, "-output", destPath)
	case "stdout-full":
		args = append(args, "-output", "-")
	}
	switch sc.Source {
	case "file":
		_ = os.WriteFile(filepath.Join(dir, grammarFile), []byte(sc.Text), 0o644)
		args = append(args, grammarFile)
	case "stdin":
		stdin = sc.Text
	case "dash":
		stdin = sc.Text
		args = append(args, "-")
	case "stdin-file":
		// peg <in.peg : standard input is a regular file, not a pipe
		stdinPath = filepath.Join(dir, "redirected.peg")
		_ = os.WriteFile(stdinPath, []byte(sc.Text), 0o644)
	case "stdin-devnull":
		stdinPath = os.DevNull
	case "missing":
		args = append(args, "nothere.peg")
		grammarFile = "nothere.peg"
	case "directory":
		_ = os.MkdirAll(filepath.Join(dir, "srcdir"), 0o755)
		args = append(args, "srcdir")
		grammarFile = "srcdir"
	}
	fromFile := sc.Source == "file" || sc.Source == "missing" || sc.Source == "directory"
	if sc.Extra && fromFile {
		_ = os.WriteFile(filepath.Join(dir, "other.peg"), []byte("package other\n\ntype Other Peg {\n}\n\nStart <- 'o' !.\n"), 0o644)
		args = append(args, "other.peg")
	}
	if sc.Dest == "default" {
		if fromFile {
			destPath = filepath.Join(dir, grammarFile+".go")
		} else {
			destPath = "" // standard streams
		}
	}
	if sc.Existing != "" && destPath != "" && (sc.Dest == "default" || sc.Dest == "named") {
		// the destination already exists, e.g. from an earlier generation with other options
		old := "package stale\n"
		if sc.Existing == "longer" {
			old = "package stale\n\n" + strings.Repeat("// a left-over line of an earlier, longer parser\nvar _ = 0\n", 4000)
		}
		_ = os.WriteFile(destPath, []byte(old), 0o644)
	}
	var exit int
	var stdout, stderr string
	if stdinPath != "" {
		b, _ := os.ReadFile(stdinPath)
		stdin = string(b)
	}
	switch {
	case sc.Dest == "stdout-full":
		exit, stderr = runPegStdoutFull(bin, dir, stdin, args...)
	case stdinPath != "":
		exit, stdout, stderr = runPegStdinFrom(bin, dir, stdinPath, args...)
	default:
		exit, stdout, stderr = runPeg(bin, dir, stdin, nil, args...)
	}
	strict := false
	for _, f := range sc.Flags {
		if f == "-strict" {
			strict = true
		}
	}
	var cause string
	switch {
	case sc.Source == "missing":
		cause = "missing grammar file"
	case sc.Source == "directory":
		cause = "grammar path is a directory"
	case sc.Dest == "missing-parent":
		cause = "destination's parent directory does not exist"
	case sc.Dest == "directory":
		cause = "destination is a directory"
	case sc.Dest == "device-full" || sc.Dest == "stdout-full":
		cause = "destination cannot be written (no space left on device)"
	case sc.Grammar == "syntax-error" || sc.Grammar == "empty":
		cause = "grammar syntax error"
	case sc.Grammar == "duplicate":
		cause = "a rule is defined twice"
	case sc.Grammar == "bad-go":
		cause = "generated code does not parse"
	case sc.Grammar == "warned" && strict:
		cause = "warning under -strict"
	}
	desc := fmt.Sprintf("peg %s (%s)", strings.Join(args, " "), sc)
	if os.Getenv("VERIF_DEBUG") != "" && sc.Grammar == "syntax-error" {
		fmt.Fprintf(os.Stderr, "DEBUG %s cause=%q exit=%d stderr=%q\n", sc, cause, exit, firstLine(stderr))
	}
	if cause != "" {
		if exit == 0 {
			return fmt.Sprintf("%s: exit status 0 although %s (stderr: %q)", desc, cause, firstLine(stderr))
		}
		if strings.TrimSpace(stderr) == "" {
			return fmt.Sprintf("%s: exit status %d but no message on stderr (%s)", desc, exit, cause)
		}
		return ""
	}
	// success expected
	if exit != 0 {
		return fmt.Sprintf("%s: exit status %d for a valid grammar and a writable destination: %s", desc, exit, firstLine(stderr))
	}
	var out []byte
	if destPath == "" {
		out = []byte(stdout)
	} else {
		b, err := os.ReadFile(destPath)
		if err != nil {
			return fmt.Sprintf("%s: exit status 0 but the destination %s does not exist", desc, strings.TrimPrefix(destPath, dir+"/"))
		}
		out = b
		if strings.TrimSpace(stdout) != "" {
			return fmt.Sprintf("%s: parser written to a file but standard output is not empty", desc)
		}
	}
	if w := looksLikeParser(out, "G"); w != "" {
		return fmt.Sprintf("%s: exit status 0 but %s", desc, w)
	}
	if sc.Grammar == "valid" {
		if strings.TrimSpace(stderr) != "" {
			return fmt.Sprintf("%s: a clean grammar writes to stderr: %s", desc, firstLine(stderr))
		}
		// options must reach the generator: same bytes as the in-process generation with these args
		v := lab.Variant{}
		for _, f := range sc.Flags {
			switch f {
			case "-inline":
				v.Inline = true
			case "-switch":
				v.Switch = true
			case "-noast":
				v.NoAST = true
			}
		}
		want, genErr := generateWithArgs(sc.Text, v, append([]string{"peg"}, args...))
		if genErr == "" && string(want) != string(out) {
			return fmt.Sprintf("%s: the written parser differs from what the generator produces for these options (%s)", desc, firstDiff(out, want))
		}
	} else if sc.Grammar == "warned" && !strings.Contains(stderr, "defined but not used") {
		return fmt.Sprintf("%s: the warning is missing from stderr: %q", desc, stderr)
	}
	return ""
}

func c18Run(c *drv.Ctx) error {
	bin, err := BuildPeg(c, false)
	if err != nil {
		return err
	}
	var scs []cliScenario
	res := drv.RunRapid("C18", c.Pick(480, 4000), drv.ShardSeed(c.Seed, "c18", 0), time.Second, func(t *rapid.T) {
		scs = append(scs, c18Gen(t))
	})
	if res.Failed {
		return fmt.Errorf("collecting scenarios failed: %s", res.Log)
	}
	type result struct {
		i    int
		what string
	}
	ch := make(chan int, len(scs))
	out := make(chan result, len(scs))
	for i := range scs {
		ch <- i
	}
	close(ch)
	for w := 0; w < 8; w++ {
		go func() {
			for i := range ch {
				out <- result{i, runScenario(c, bin, scs[i], i)}
			}
		}()
	}
	whats := make([]string, len(scs))
	for range scs {
		r := <-out
		whats[r.i] = r.what
	}
	for i, sc := range scs {
		c.Stats.Eval()
		c.Stats.Class("grammar:" + sc.Grammar)
		c.Stats.Class("source:" + sc.Source)
		c.Stats.Class("dest:" + sc.Dest)
		nt := sc.Grammar != "valid" || sc.Source != "file" || sc.Dest != "default"
		if nt && c.Stats.Nontrivial(drv.Hash(sc.String(), sc.Text)) && i%17 == 0 {
			c.Stats.Sample(sc.String())
		}
		if whats[i] != "" && len(c.Violations) == 0 {
			// minimise the scenario by dropping flags that do not matter
			min := sc
			for k := 0; k < len(min.Flags); {
				cand := min
				cand.Flags = append(append([]string{}, min.Flags[:k]...), min.Flags[k+1:]...)
				if w := runScenario(c, bin, cand, 100000+k); w != "" {
					min, whats[i] = cand, w
				} else {
					k++
				}
			}
			c.AddViolation(drv.Violation{Property: "C18", Kind: "cli-scenario", What: whats[i], Case: min})
		}
	}
	return nil
}

func init() {
	drv.RegisterReplay("cli-scenario", func(c *drv.Ctx, raw json.RawMessage) (string, error) {
		var sc cliScenario
		if err := json.Unmarshal(raw, &sc); err != nil {
			return "", err
		}
		bin, err := BuildPeg(c, false)
		if err != nil {
			return "", err
		}
		return runScenario(c, bin, sc, 0), nil
	})
	drv.Register("C18",
		"rapid-generated scenarios for the built peg binary, each in a fresh temporary directory: grammar in {valid, warned (unused rule), syntax error (junk spliced in / truncated), empty, action that is not Go} x source in {file, stdin, '-', missing file, a directory} x destination in {default <grammar>.go, named file, -output -, missing parent directory, a directory, /dev/full, standard output on /dev/full} x destination file absent / pre-existing shorter / pre-existing longer x any subset of -inline -switch -noast -strict. Expected outcome table: a missing/unreadable source, a syntax error, an unwritable destination, un-parseable generated code or a warning under -strict give exit!=0 and a message on stderr, with and without -strict; otherwise exit 0, the destination exists (default name <grammar>.go, stdout for -output - or stdin input), parses as Go, contains the Init method and ends properly, equals the in-process generation for the same arguments byte for byte (clean grammars), and stderr is empty (clean) or carries the warning. Non-trivial: a failure cause, or a non-default source/destination; distinct = scenario.",
		[]string{"checks run as root, so an unwritable destination is modelled by a missing parent directory and by a directory in place of the file"},
		c18Run)
}

// runPegStdoutFull runs peg with standard output connected to /dev/full.
// runPegStdinFrom runs peg with standard input opened from a path (a regular file, a device).
func runPegStdinFrom(bin, dir, path string, args ...string) (exit int, stdout, stderr string) {
	f, err := os.Open(path)
	if err != nil {
		return -1, "", err.Error()
	}
	defer f.Close()
	cmd := exec.Command(bin, args...)
	cmd.Dir = dir
	cmd.Stdin = f
	var so, se bytes.Buffer
	cmd.Stdout, cmd.Stderr = &so, &se
	if err := cmd.Run(); err != nil {
		if ee, ok := err.(*exec.ExitError); ok {
			return ee.ExitCode(), so.String(), se.String()
		}
		return -1, so.String(), se.String()
	}
	return 0, so.String(), se.String()
}

func runPegStdoutFull(bin, dir, stdin string, args ...string) (int, string) {
	full, err := os.OpenFile("/dev/full", os.O_WRONLY, 0)
	if err != nil {
		return -1, err.Error()
	}
	defer full.Close()
	cmd := exec.Command(bin, args...)
	cmd.Dir = dir
	cmd.Stdin = strings.NewReader(stdin)
	cmd.Stdout = full
	var se bytes.Buffer
	cmd.Stderr = &se
	err = cmd.Run()
	if err != nil {
		if ee, ok := err.(*exec.ExitError); ok {
			return ee.ExitCode(), se.String()
		}
		return -1, se.String()
	}
	return 0, se.String()
}

// generateWithArgs runs the generator in process with the CLI's argument list (the header
// line of the output echoes it).
func generateWithArgs(text string, v lab.Variant, args []string) (src []byte, genErr string) {
	defer func() {
		if r := recover(); r != nil {
			genErr = fmt.Sprint("panic: ", r)
		}
	}()
	res := fe.Parse(text, v.Inline, v.Switch, v.NoAST)
	if res.Panic != "" || res.Err != nil {
		return nil, "front end: " + res.Panic + fmt.Sprint(res.Err)
	}
	res.Tree.Strict = true
	var buf bytes.Buffer
	if err := res.Tree.Compile("out.go", args, &buf); err != nil {
		return nil, err.Error()
	}
	return buf.Bytes(), ""
}
