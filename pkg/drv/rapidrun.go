package drv

import (
	"bytes"
	"encoding/json"
	"flag"
	"fmt"
	"os"
	"os/exec"
	"strconv"
	"strings"
	"sync"
	"testing"
	"time"

	"pgregory.net/rapid"
)

// rapid from a plain binary: rapid registers its flags on the default FlagSet and
// reads them at Check time; testing.Init must have run so that testing.Short works.

var initOnce sync.Once

func rapidInit() {
	initOnce.Do(func() {
		testing.Init()
		_ = flag.CommandLine.Parse(nil)
		_ = flag.Set("rapid.nofailfile", "true")
	})
}

type failNow struct{}

type rtb struct {
	name   string
	failed bool
	log    bytes.Buffer
}

func (t *rtb) Helper()                           {}
func (t *rtb) Name() string                      { return t.name }
func (t *rtb) Logf(format string, args ...any)   { fmt.Fprintf(&t.log, format+"\n", args...) }
func (t *rtb) Log(args ...any)                   { fmt.Fprintln(&t.log, args...) }
func (t *rtb) Skipf(format string, args ...any)  { panic("skip outside rapid.T") }
func (t *rtb) Skip(args ...any)                  { panic("skip outside rapid.T") }
func (t *rtb) SkipNow()                          { panic("skip outside rapid.T") }
func (t *rtb) Errorf(format string, args ...any) { t.failed = true; t.Logf(format, args...) }
func (t *rtb) Error(args ...any)                 { t.failed = true; t.Log(args...) }
func (t *rtb) Fatalf(format string, args ...any) { t.Errorf(format, args...); panic(failNow{}) }
func (t *rtb) Fatal(args ...any)                 { t.Error(args...); panic(failNow{}) }
func (t *rtb) FailNow()                          { t.failed = true; panic(failNow{}) }
func (t *rtb) Fail()                             { t.failed = true }
func (t *rtb) Failed() bool                      { return t.failed }

// RapidResult is the outcome of one rapid.Check run.
type RapidResult struct {
	Failed bool
	Passed int
	Log    string
	Flaky  bool
}

// RunRapid runs prop under rapid.Check with the given number of checks and seed.
// On failure the property has been re-run on the shrunk case last, so whatever the
// property recorded about "the last failing case" describes the minimal one.
func RunRapid(name string, checks int, seed uint64, shrink time.Duration, prop func(*rapid.T)) RapidResult {
	rapidInit()
	if seed == 0 {
		seed = 1
	}
	_ = flag.Set("rapid.checks", strconv.Itoa(checks))
	_ = flag.Set("rapid.seed", strconv.FormatUint(seed, 10))
	_ = flag.Set("rapid.shrinktime", shrink.String())
	tb := &rtb{name: name}
	func() {
		defer func() {
			if r := recover(); r != nil {
				if _, ok := r.(failNow); ok {
					return
				}
				panic(r)
			}
		}()
		rapid.Check(tb, prop)
	}()
	res := RapidResult{Failed: tb.failed, Log: tb.log.String()}
	if i := strings.Index(res.Log, "[rapid] OK, passed "); i >= 0 {
		fmt.Sscanf(res.Log[i:], "[rapid] OK, passed %d", &res.Passed)
	}
	if strings.Contains(res.Log, "flaky test") {
		res.Flaky = true
	}
	return res
}

// ShardSeed derives the rapid seed of a shard from the run seed.
func ShardSeed(seed uint64, name string, shard int) uint64 {
	s := Hash(name, strconv.FormatUint(seed, 10), strconv.Itoa(shard))
	if s == 0 {
		s = 1
	}
	return s >> 1 // keep it positive for flag parsing
}

type shardOut struct {
	Stats     *Stats     `json:"stats"`
	Violation *Violation `json:"violation,omitempty"`
	Err       string     `json:"err,omitempty"`
}

func runShard(name, id, tier, shard, checks string) int {
	fn, ok := shards[name]
	if !ok {
		fmt.Fprintln(os.Stderr, "unknown shard function", name)
		return 2
	}
	c := baseCtx()
	c.ID, c.Tier = id, tier
	sh, _ := strconv.Atoi(shard)
	n, _ := strconv.Atoi(checks)
	st, v, err := fn(c, sh, n)
	out := shardOut{Stats: st, Violation: v}
	if st != nil {
		for k := range st.NT {
			st.NTList = append(st.NTList, k)
		}
	}
	if err != nil {
		out.Err = err.Error()
	}
	b, _ := json.Marshal(out)
	os.Stdout.Write(b)
	os.Stdout.Write([]byte("\n"))
	return 0
}

// RunSharded runs `total` rapid checks of the named shard function split over `procs`
// child processes of this binary (in process when procs <= 1) and merges the results
// into c. The first violation (lowest shard number) is kept.
func RunSharded(c *Ctx, name string, total, procs int, timeout time.Duration) error {
	fn, ok := shards[name]
	if !ok {
		return fmt.Errorf("unknown shard function %s", name)
	}
	if procs <= 1 {
		st, v, err := fn(c, 0, total)
		if st != nil {
			c.Stats.Merge(st)
		}
		if v != nil {
			c.AddViolation(*v)
		}
		return err
	}
	per := (total + procs - 1) / procs
	outs := make([]shardOut, procs)
	errs := make([]error, procs)
	var wg sync.WaitGroup
	// a violation found by one shard decides the check: the others (one of which may be
	// stuck inside the very defect) are stopped instead of being waited for
	stop := make(chan struct{})
	var stopOnce sync.Once
	for i := 0; i < procs; i++ {
		wg.Add(1)
		go func(i int) {
			defer wg.Done()
			cmd := exec.Command(c.Self, "shard", name, c.ID, c.Tier, strconv.Itoa(i), strconv.Itoa(per))
			cmd.Env = append(os.Environ(), "VERIF_SCRATCH="+c.Scratch, fmt.Sprintf("VERIF_SEED=%d", c.Seed))
			var stdout, stderr bytes.Buffer
			cmd.Stdout, cmd.Stderr = &stdout, &stderr
			done := make(chan error, 1)
			if err := cmd.Start(); err != nil {
				errs[i] = err
				return
			}
			go func() { done <- cmd.Wait() }()
			select {
			case err := <-done:
				if err != nil {
					errs[i] = fmt.Errorf("shard %d: %v: %s", i, err, tail(stderr.String(), 2000))
					return
				}
			case <-stop:
				_ = cmd.Process.Kill()
				outs[i] = shardOut{}
				return
			case <-time.After(timeout):
				_ = cmd.Process.Kill()
				errs[i] = fmt.Errorf("shard %d: timeout after %v", i, timeout)
				return
			}
			line := bytes.TrimSpace(stdout.Bytes())
			if j := bytes.LastIndexByte(line, '\n'); j >= 0 {
				line = line[j+1:]
			}
			if err := json.Unmarshal(line, &outs[i]); err != nil {
				errs[i] = fmt.Errorf("shard %d: bad output: %v", i, err)
			} else if outs[i].Violation != nil {
				stopOnce.Do(func() { close(stop) })
			}
		}(i)
	}
	wg.Wait()
	var first error
	for i := 0; i < procs; i++ {
		if errs[i] != nil {
			if first == nil {
				first = errs[i]
			}
			continue
		}
		if outs[i].Stats != nil {
			c.Stats.Merge(outs[i].Stats)
		}
		if outs[i].Err != "" && first == nil {
			first = fmt.Errorf("shard %d: %s", i, outs[i].Err)
		}
	}
	for i := 0; i < procs; i++ {
		if outs[i].Violation != nil {
			c.AddViolation(*outs[i].Violation)
			break
		}
	}
	return first
}

func tail(s string, n int) string {
	if len(s) > n {
		return s[len(s)-n:]
	}
	return s
}

// ShrinkGuard bounds the time rapid spends shrinking a failure. rapid checks its own
// shrink deadline only between passes, and one pass over a large case can take minutes.
// After the first failure the guard starts a clock; once it has run out, candidates that
// have not already been seen failing are skipped (a skipped candidate counts as "not
// failing", so the shrinker stops making progress and finishes), while cases already known
// to fail keep failing, so the final re-run of the minimal case still fails.
type ShrinkGuard struct {
	Budget   time.Duration
	deadline time.Time
	failed   map[uint64]string
}

// Known returns the recorded failure of a case seen before.
func (g *ShrinkGuard) Known(key uint64) (string, bool) {
	w, ok := g.failed[key]
	return w, ok
}

// Record notes a failing case and starts the clock at the first one.
func (g *ShrinkGuard) Record(key uint64, what string) {
	if g.failed == nil {
		g.failed = map[uint64]string{}
		g.deadline = time.Now().Add(g.Budget)
	}
	g.failed[key] = what
}

// Expired reports whether shrinking has used up its budget.
func (g *ShrinkGuard) Expired() bool {
	return g.failed != nil && time.Now().After(g.deadline)
}
