// Package drv is the driver shared by all checks: command line, evidence files,
// known findings, the rapid runner that works from a plain binary, and sharding.
package drv

import (
	"encoding/json"
	"fmt"
	"hash/fnv"
	"os"
	"path/filepath"
	"sort"
	"strconv"
	"strings"
	"time"
)

// Ctx is what a check receives.
type Ctx struct {
	ID      string
	Tier    string // quick | thorough
	Seed    uint64 // never 0
	Repo    string // path of the pointlander/peg working tree under test
	Verif   string // /verif
	Scratch string // private scratch directory of this run (removed by ./check)
	Go      string // go binary to use for builds
	Self    string // path of this binary (for shards)
	Start   time.Time

	Stats *Stats
	// Violations found by this run (after known-finding filtering).
	Violations   []Violation
	Known        []string // KNOWN-FINDING lines to print
	Notes        []string
	Inconclusive string // non-empty => exit 2
}

// Thorough reports whether the thorough tier was requested.
func (c *Ctx) Thorough() bool { return c.Tier == "thorough" }

// Pick returns q in the quick tier and t in the thorough tier.
func (c *Ctx) Pick(q, t int) int {
	if c.Thorough() {
		return t
	}
	return q
}

// Violation is one failing case, materialised so that it can be replayed without
// the generators.
type Violation struct {
	Property string `json:"property"`
	Kind     string `json:"kind"`            // replay kind: which evaluator re-runs it
	What     string `json:"what"`            // human readable description of the mismatch
	Case     any    `json:"case"`            // materialised case (kind specific)
	Shape    string `json:"shape,omitempty"` // known-finding shape key, if any
	Path     string `json:"-"`
}

// Stats collects what a run covered.
type Stats struct {
	Evaluations int64            `json:"evaluations"`
	NT          map[uint64]bool  `json:"-"`
	NTList      []uint64         `json:"nt,omitempty"` // only for shard transport
	Classes     map[string]int64 `json:"classes"`
	Samples     []any            `json:"samples"`
	Extra       map[string]any   `json:"extra,omitempty"`
	maxSamples  int
	fallback    any
}

func NewStats() *Stats {
	return &Stats{NT: map[uint64]bool{}, Classes: map[string]int64{}, Extra: map[string]any{}, maxSamples: 5}
}

func Hash(parts ...string) uint64 {
	h := fnv.New64a()
	for _, p := range parts {
		h.Write([]byte(p))
		h.Write([]byte{0})
	}
	return h.Sum64()
}

// Eval counts one oracle comparison.
func (s *Stats) Eval() { s.Evaluations++ }

// Nontrivial records a distinct non-trivial case; it returns true when the case was new.
func (s *Stats) Nontrivial(key uint64) bool {
	if s.NT[key] {
		return false
	}
	s.NT[key] = true
	return true
}

func (s *Stats) Class(name string)           { s.Classes[name]++ }
func (s *Stats) ClassN(name string, n int64) { s.Classes[name] += n }

// Sample keeps the first few samples offered (deterministic given deterministic order).
func (s *Stats) Sample(v any) {
	if len(s.Samples) < s.maxSamples {
		s.Samples = append(s.Samples, v)
	}
}

// Fallback remembers one case to show when no case was small enough to be sampled.
func (s *Stats) Fallback(v any) {
	if s.fallback == nil {
		s.fallback = v
	}
}

// Merge adds another (shard's) stats into s.
func (s *Stats) Merge(o *Stats) {
	s.Evaluations += o.Evaluations
	for k := range o.NT {
		s.NT[k] = true
	}
	for _, k := range o.NTList {
		s.NT[k] = true
	}
	for k, v := range o.Classes {
		s.Classes[k] += v
	}
	for _, x := range o.Samples {
		s.Sample(x)
	}
	for k, v := range o.Extra {
		if _, ok := s.Extra[k]; !ok {
			s.Extra[k] = v
		}
	}
}

// CheckFunc is the body of one property's check.
type CheckFunc func(c *Ctx) error

type checkInfo struct {
	fn    CheckFunc
	rule  string
	assum []string
}

var registry = map[string]*checkInfo{}

// Register adds a check. rule is the generation / non-triviality rule in words.
func Register(id string, rule string, assumptions []string, fn CheckFunc) {
	registry[id] = &checkInfo{fn: fn, rule: rule, assum: assumptions}
}

// ReplayFunc re-evaluates a materialised case; it returns a non-empty description when
// the case still fails.
type ReplayFunc func(c *Ctx, raw json.RawMessage) (string, error)

var replayers = map[string]ReplayFunc{}

func RegisterReplay(kind string, fn ReplayFunc) { replayers[kind] = fn }

// ShardFunc runs one shard of a sharded rapid property and returns its stats.
type ShardFunc func(c *Ctx, shard int, checks int) (*Stats, *Violation, error)

var shards = map[string]ShardFunc{}

func RegisterShard(name string, fn ShardFunc) { shards[name] = fn }

// ---------------------------------------------------------------------------------
// known findings

type Finding struct {
	ID         string   `json:"id"`
	Properties []string `json:"properties"`
	Status     string   `json:"status"` // open | fixed
	What       string   `json:"what"`
	Witness    string   `json:"witness,omitempty"` // replay file under /verif/replays
	Shape      string   `json:"shape,omitempty"`   // shape key excluded by generators while open
	Commit     string   `json:"commit,omitempty"`
}

type Findings struct {
	Findings []Finding `json:"findings"`
	Lines    []string  `json:"lines"`
}

func LoadFindings(verif string) (*Findings, error) {
	b, err := os.ReadFile(filepath.Join(verif, "known_findings.json"))
	if err != nil {
		if os.IsNotExist(err) {
			return &Findings{}, nil
		}
		return nil, err
	}
	var f Findings
	if err := json.Unmarshal(b, &f); err != nil {
		return nil, err
	}
	return &f, nil
}

// OpenShapes returns the shape keys of open findings that concern property id.
func (f *Findings) OpenShapes(id string) map[string]Finding {
	out := map[string]Finding{}
	for _, x := range f.Findings {
		if x.Status != "open" || x.Shape == "" {
			continue
		}
		for _, p := range x.Properties {
			if p == id {
				out[x.Shape] = x
			}
		}
	}
	return out
}

// ---------------------------------------------------------------------------------
// evidence

type evidence struct {
	PropertyID  string         `json:"property_id"`
	Tier        string         `json:"tier"`
	Seed        int64          `json:"seed"`
	Level       string         `json:"level"`
	Coverage    map[string]any `json:"coverage"`
	Assumptions []string       `json:"assumptions"`
	WallS       float64        `json:"wall_s"`
	Violations  int            `json:"violations"`
}

func writeEvidence(c *Ctx, info *checkInfo) error {
	cov := map[string]any{
		"evaluations":         c.Stats.Evaluations,
		"distinct_nontrivial": len(c.Stats.NT),
		"rule":                info.rule,
		"samples":             c.Stats.Samples,
		"classes":             c.Stats.Classes,
	}
	if len(c.Stats.Samples) == 0 && c.Stats.fallback != nil {
		cov["samples"] = []any{c.Stats.fallback}
	}
	if cov["samples"] == nil {
		cov["samples"] = []any{}
	}
	if info.assum == nil {
		info.assum = []string{}
	}
	for k, v := range c.Stats.Extra {
		cov[k] = v
	}
	if len(c.Known) > 0 {
		cov["known_findings_reported"] = c.Known
	}
	if len(c.Notes) > 0 {
		cov["notes"] = c.Notes
	}
	if c.Inconclusive != "" {
		cov["inconclusive"] = c.Inconclusive
	}
	ev := evidence{
		PropertyID: c.ID, Tier: c.Tier, Seed: int64(c.Seed), Level: "exploration",
		Coverage: cov, Assumptions: info.assum,
		WallS: time.Since(c.Start).Seconds(), Violations: len(c.Violations),
	}
	b, err := json.MarshalIndent(ev, "", " ")
	if err != nil {
		return err
	}
	dir := filepath.Join(c.Verif, "evidence")
	if err := os.MkdirAll(dir, 0o755); err != nil {
		return err
	}
	tmp := filepath.Join(dir, "."+c.ID+".json.tmp")
	if err := os.WriteFile(tmp, append(b, '\n'), 0o644); err != nil {
		return err
	}
	return os.Rename(tmp, filepath.Join(dir, c.ID+".json"))
}

// SaveViolation materialises a violation as a replay file and returns its path.
func SaveViolation(c *Ctx, v *Violation) string {
	b, _ := json.MarshalIndent(v, "", " ")
	dir := filepath.Join(c.Verif, "evidence", "replays")
	_ = os.MkdirAll(dir, 0o755)
	p := filepath.Join(dir, fmt.Sprintf("%s-%016x.json", v.Property, Hash(string(b))))
	_ = os.WriteFile(p, append(b, '\n'), 0o644)
	v.Path = p
	return p
}

// AddViolation records a violation unless it is listed as a known finding.
func (c *Ctx) AddViolation(v Violation) {
	if v.Property == "" {
		v.Property = c.ID
	}
	c.Violations = append(c.Violations, v)
}

func (c *Ctx) KnownLine(what string) {
	line := fmt.Sprintf("KNOWN-FINDING: property=%s %s", c.ID, what)
	for _, l := range c.Known {
		if l == line {
			return
		}
	}
	c.Known = append(c.Known, line)
}

// ---------------------------------------------------------------------------------
// main

func envSeed() uint64 {
	s := os.Getenv("VERIF_SEED")
	if s == "" {
		return 1
	}
	n, err := strconv.ParseInt(s, 0, 64)
	if err != nil {
		return Hash(s) | 1
	}
	if n < 0 {
		n = -n
	}
	if n == 0 {
		return 1
	}
	return uint64(n)
}

func baseCtx() *Ctx {
	c := &Ctx{Seed: envSeed(), Start: time.Now(), Stats: NewStats()}
	c.Repo = os.Getenv("VERIF_REPO")
	if c.Repo == "" {
		c.Repo = "/repo"
	}
	c.Verif = os.Getenv("VERIF_HOME")
	if c.Verif == "" {
		c.Verif = "/verif"
	}
	c.Scratch = os.Getenv("VERIF_SCRATCH")
	if c.Scratch == "" {
		d, _ := os.MkdirTemp("", "verif-run-")
		c.Scratch = d
	}
	c.Go = os.Getenv("VERIF_GO")
	if c.Go == "" {
		c.Go = "go"
	}
	c.Self, _ = os.Executable()
	return c
}

// Main is called by the generated pegside main after it has installed the front end.
func Main() {
	if len(os.Args) < 2 {
		usage()
	}
	switch os.Args[1] {
	case "check":
		if len(os.Args) < 3 {
			usage()
		}
		tier := "quick"
		if len(os.Args) > 3 {
			tier = os.Args[3]
		}
		if t := os.Getenv("VERIF_TIER"); t != "" && len(os.Args) <= 3 {
			tier = t
		}
		os.Exit(runCheck(os.Args[2], tier))
	case "replay":
		if len(os.Args) < 3 {
			usage()
		}
		os.Exit(runReplay(os.Args[2]))
	case "shard":
		// shard <name> <ID> <tier> <shard> <checks>
		if len(os.Args) < 7 {
			usage()
		}
		os.Exit(runShard(os.Args[2], os.Args[3], os.Args[4], os.Args[5], os.Args[6]))
	case "list":
		ids := make([]string, 0, len(registry))
		for id := range registry {
			ids = append(ids, id)
		}
		sort.Strings(ids)
		fmt.Println(strings.Join(ids, "\n"))
	default:
		if fn, ok := tools[os.Args[1]]; ok {
			os.Exit(fn(baseCtx(), os.Args[2:]))
		}
		usage()
	}
}

var tools = map[string]func(c *Ctx, args []string) int{}

// RegisterTool adds an auxiliary sub-command (debugging aids, workers).
func RegisterTool(name string, fn func(c *Ctx, args []string) int) { tools[name] = fn }

func usage() {
	fmt.Fprintln(os.Stderr, "usage: verif check <ID> [quick|thorough] | replay <file> | list")
	os.Exit(2)
}

func runCheck(id, tier string) int {
	info, ok := registry[id]
	if !ok {
		fmt.Fprintf(os.Stderr, "unknown property %q\n", id)
		return 2
	}
	if tier != "quick" && tier != "thorough" {
		fmt.Fprintf(os.Stderr, "unknown tier %q\n", tier)
		return 2
	}
	c := baseCtx()
	c.ID, c.Tier = id, tier

	// replay tier: committed regression replays of this property run first
	replayCommitted(c)

	err := func() (err error) {
		defer func() {
			if r := recover(); r != nil {
				if ic, ok := r.(inconclusive); ok {
					c.Inconclusive = string(ic)
					return
				}
				panic(r)
			}
		}()
		return info.fn(c)
	}()
	if err != nil {
		c.Inconclusive = "infrastructure error: " + err.Error()
	}
	if len(c.Violations) == 0 && c.Inconclusive == "" && c.Stats.Evaluations == 0 {
		// nothing was built or nothing could be run: that is not "the property held"
		c.Inconclusive = "the check evaluated nothing (see the notes in the evidence file)"
	}
	for _, l := range c.Known {
		fmt.Println(l)
	}
	for i := range c.Violations {
		v := &c.Violations[i]
		if v.Path == "" {
			SaveViolation(c, v)
		}
		fmt.Printf("VIOLATION property=%s replay=%s\n", v.Property, v.Path)
		fmt.Printf("  %s\n", strings.ReplaceAll(v.What, "\n", "\n  "))
	}
	if werr := writeEvidence(c, info); werr != nil {
		fmt.Fprintln(os.Stderr, "cannot write evidence:", werr)
		return 2
	}
	fmt.Printf("%s %s seed=%d: evaluations=%d distinct_nontrivial=%d violations=%d known=%d wall=%.1fs\n",
		id, tier, c.Seed, c.Stats.Evaluations, len(c.Stats.NT), len(c.Violations), len(c.Known), time.Since(c.Start).Seconds())
	if len(c.Violations) > 0 {
		return 1
	}
	if c.Inconclusive != "" {
		fmt.Println("INCONCLUSIVE:", c.Inconclusive)
		return 2
	}
	return 0
}

type inconclusive string

// Inconclusive aborts the check with exit status 2.
func Inconclusive(format string, a ...any) {
	panic(inconclusive(fmt.Sprintf(format, a...)))
}

func replayCommitted(c *Ctx) {
	if os.Getenv("VERIF_NO_REPLAYS") != "" {
		// sensitivity runs: judge the generated search alone, without the regression witnesses
		c.Notes = append(c.Notes, "committed replays skipped (VERIF_NO_REPLAYS)")
		return
	}
	files, _ := filepath.Glob(filepath.Join(c.Verif, "replays", c.ID+"-*.json"))
	sort.Strings(files)
	fnd, _ := LoadFindings(c.Verif)
	open := map[string]Finding{}
	if fnd != nil {
		for _, f := range fnd.Findings {
			if f.Status == "open" && f.Witness != "" {
				open[filepath.Base(f.Witness)] = f
			}
		}
	}
	for _, f := range files {
		b, err := os.ReadFile(f)
		if err != nil {
			continue
		}
		var v struct {
			Property string          `json:"property"`
			Kind     string          `json:"kind"`
			What     string          `json:"what"`
			Case     json.RawMessage `json:"case"`
		}
		if err := json.Unmarshal(b, &v); err != nil {
			c.Notes = append(c.Notes, "bad replay file "+f)
			continue
		}
		rp, ok := replayers[v.Kind]
		if !ok {
			c.Notes = append(c.Notes, "no replayer for kind "+v.Kind)
			continue
		}
		what, err := rp(c, v.Case)
		c.Stats.ClassN("committed_replays_run", 1)
		if err != nil {
			c.Notes = append(c.Notes, "replay "+filepath.Base(f)+": "+err.Error())
			continue
		}
		if what == "" {
			continue
		}
		if kf, ok := open[filepath.Base(f)]; ok {
			c.KnownLine(kf.ID + ": " + kf.What)
			continue
		}
		c.Violations = append(c.Violations, Violation{Property: c.ID, Kind: v.Kind, What: "committed regression replay fails again: " + what, Path: f})
	}
}

func runReplay(file string) int {
	b, err := os.ReadFile(file)
	if err != nil {
		fmt.Fprintln(os.Stderr, err)
		return 2
	}
	var v struct {
		Property string          `json:"property"`
		Kind     string          `json:"kind"`
		What     string          `json:"what"`
		Case     json.RawMessage `json:"case"`
	}
	if err := json.Unmarshal(b, &v); err != nil {
		fmt.Fprintln(os.Stderr, err)
		return 2
	}
	rp, ok := replayers[v.Kind]
	if !ok {
		fmt.Fprintln(os.Stderr, "no replayer for kind", v.Kind)
		return 2
	}
	c := baseCtx()
	c.ID, c.Tier = v.Property, "quick"
	what, err := rp(c, v.Case)
	if err != nil {
		fmt.Fprintln(os.Stderr, "replay error:", err)
		return 2
	}
	if what != "" {
		fmt.Printf("VIOLATION property=%s replay=%s\n  %s\n", v.Property, file, strings.ReplaceAll(what, "\n", "\n  "))
		return 1
	}
	fmt.Println("replay passes: the case no longer violates", v.Property)
	return 0
}
