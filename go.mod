module verif

go 1.25

require (
	github.com/pointlander/peg v0.0.0
	pgregory.net/rapid v1.3.0
)

replace github.com/pointlander/peg => /repo
